//! Schedule controllers for the Pipe / Buffered hooks (C05, C08, C09).
