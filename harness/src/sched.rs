//! Schedule controllers for the Pipe / Buffered hooks (C05, C08, C09).
//!
//! `Serial`: every hooked thread parks at every schedule point and runs only when granted, so
//! exactly one actor (a worker or the consumer = the harness thread) runs at any time and an
//! execution is a function of the sequence of scheduling choices.
//! `Chaos`: no parking, pseudo-random yields/sleeps at the schedule points (real threads).
#![allow(dead_code)]
use std::collections::hash_map::DefaultHasher;
use std::hash::{Hash, Hasher};
use std::sync::atomic::{AtomicU64, AtomicUsize, Ordering};
use std::sync::{Arc, Condvar, Mutex};
use std::time::{Duration, Instant};
use text_utils::data::loading::{Pipe, PipelineIterator};
use text_utils::verif::{Controller, Point};

#[derive(Debug, Clone, Copy, PartialEq)]
pub enum WState {
    NotStarted,
    Parked(Point, Option<usize>, Option<bool>),
    Running,
    Exited,
}

#[derive(Debug, Clone, Copy, PartialEq)]
pub struct Event {
    pub worker: usize,
    pub point: Point,
    pub idx: Option<usize>,
    pub ok: Option<bool>,
}

struct SerialState {
    workers: Vec<WState>,
    granted: Option<usize>,
    free_run: bool,
    trace: Vec<Event>,
}

pub struct Serial {
    st: Mutex<SerialState>,
    cv: Condvar,
}

impl Serial {
    pub fn new(workers: usize) -> Arc<Self> {
        Arc::new(Serial {
            st: Mutex::new(SerialState {
                workers: vec![WState::NotStarted; workers],
                granted: None,
                free_run: false,
                trace: vec![],
            }),
            cv: Condvar::new(),
        })
    }

    /// wait until no worker is running or not yet started; false on timeout
    pub fn wait_quiescent(&self, timeout: Duration) -> bool {
        let deadline = Instant::now() + timeout;
        let mut st = self.st.lock().unwrap();
        loop {
            let busy = st.granted.is_some()
                || st
                    .workers
                    .iter()
                    .any(|w| matches!(w, WState::Running | WState::NotStarted));
            if !busy {
                return true;
            }
            let now = Instant::now();
            if now >= deadline {
                return false;
            }
            let (g, _) = self.cv.wait_timeout(st, deadline - now).unwrap();
            st = g;
        }
    }

    pub fn snapshot(&self) -> Vec<WState> {
        self.st.lock().unwrap().workers.clone()
    }

    pub fn trace_len(&self) -> usize {
        self.st.lock().unwrap().trace.len()
    }

    pub fn trace(&self) -> Vec<Event> {
        self.st.lock().unwrap().trace.clone()
    }

    /// let worker `w` run until it parks again or exits; false if it did neither within `timeout`
    /// (it is blocked inside a primitive)
    pub fn grant(&self, w: usize, timeout: Duration) -> bool {
        {
            let mut st = self.st.lock().unwrap();
            st.granted = Some(w);
            st.workers[w] = WState::Running;
            self.cv.notify_all();
        }
        let deadline = Instant::now() + timeout;
        let mut st = self.st.lock().unwrap();
        loop {
            if st.granted != Some(w) {
                return true;
            }
            let now = Instant::now();
            if now >= deadline {
                return false;
            }
            let (g, _) = self.cv.wait_timeout(st, deadline - now).unwrap();
            st = g;
        }
    }

    /// workers that never showed up (a changed tree may spawn fewer threads) are treated as gone
    pub fn mark_absent(&self) -> usize {
        let mut st = self.st.lock().unwrap();
        let mut n = 0;
        for w in st.workers.iter_mut() {
            if *w == WState::NotStarted {
                *w = WState::Exited;
                n += 1;
            }
        }
        n
    }

    /// stop controlling: every parked worker continues on its own
    pub fn release_all(&self) {
        let mut st = self.st.lock().unwrap();
        st.free_run = true;
        self.cv.notify_all();
    }
}

impl Controller for Serial {
    fn at(&self, worker: usize, point: Point, idx: Option<usize>, ok: Option<bool>) {
        // only pipe workers are serialised; buffer-thread points pass through
        if matches!(
            point,
            Point::BufBeforePull | Point::BufBeforeSend | Point::BufAfterSend | Point::BufExit
        ) {
            return;
        }
        let mut st = self.st.lock().unwrap();
        if worker >= st.workers.len() {
            return;
        }
        if st.free_run {
            // the run is over (a worker of a broken tree may spin here forever: record nothing)
            if point == Point::Exit {
                st.workers[worker] = WState::Exited;
            }
            drop(st);
            if point == Point::TurnSpin {
                std::thread::sleep(Duration::from_millis(1));
            }
            return;
        }
        st.trace.push(Event { worker, point, idx, ok });
        if point == Point::Exit {
            st.workers[worker] = WState::Exited;
            if st.granted == Some(worker) {
                st.granted = None;
            }
            self.cv.notify_all();
            return;
        }
        st.workers[worker] = WState::Parked(point, idx, ok);
        if st.granted == Some(worker) {
            st.granted = None;
        }
        self.cv.notify_all();
        while st.granted != Some(worker) && !st.free_run {
            st = self.cv.wait(st).unwrap();
        }
        st.workers[worker] = WState::Running;
    }
}

// ---------------------------------------------------------------------------------------

pub struct Chaos {
    seed: u64,
    counter: AtomicU64,
}

impl Chaos {
    pub fn new(seed: u64) -> Arc<Self> {
        Arc::new(Chaos {
            seed,
            counter: AtomicU64::new(0),
        })
    }
}

impl Controller for Chaos {
    fn at(&self, worker: usize, point: Point, _idx: Option<usize>, _ok: Option<bool>) {
        let k = self.counter.fetch_add(1, Ordering::Relaxed);
        let mut h = DefaultHasher::new();
        (self.seed, worker, point as u8 as u64, k).hash(&mut h);
        let r = h.finish() % 100;
        if r < 30 {
            std::thread::yield_now();
        } else if r < 36 {
            std::thread::sleep(Duration::from_micros(20 + (h.finish() >> 8) % 200));
        }
    }
}

// ---------------------------------------------------------------------------------------
// one controlled run of a Pipe

#[derive(Debug, Clone, Copy, PartialEq, Eq, Hash)]
pub enum Actor {
    Consumer,
    Worker(usize),
}

pub type Item = (usize, u64);

pub fn f_of(x: usize) -> u64 {
    (x as u64).wrapping_mul(0x9E37_79B9).wrapping_add(3)
}

pub struct PipeRun {
    pub ctrl: Arc<Serial>,
    pub t: usize,
    pub n: usize,
    pub cap: usize,
    pipe: Option<Pipe<Item>>,
    pub received: Vec<Item>,
    pub calls: Arc<Vec<AtomicUsize>>,
    pub pulled: Arc<AtomicUsize>,
    pub recvs: usize,
    pub ended: bool,
    pub dropped: bool,
    epoch: u64,
    spin_epoch: Vec<u64>,
    pub blocked: Vec<bool>,
    pub last: Option<Actor>,
    pub steps: usize,
    pub preemptions: usize,
    pub classes: Vec<&'static str>,
    /// upstream iterator was dropped (all workers released it)
    pub upstream_dropped: Arc<AtomicUsize>,
    forced_send: bool,
}

struct Upstream {
    next: usize,
    n: usize,
    pulled: Arc<AtomicUsize>,
    dropped: Arc<AtomicUsize>,
}

impl Iterator for Upstream {
    type Item = usize;
    fn next(&mut self) -> Option<usize> {
        if self.next < self.n {
            self.pulled.fetch_add(1, Ordering::SeqCst);
            self.next += 1;
            Some(self.next - 1)
        } else {
            None
        }
    }
}

impl Drop for Upstream {
    fn drop(&mut self) {
        self.dropped.fetch_add(1, Ordering::SeqCst);
    }
}

const GRANT_TIMEOUT: Duration = Duration::from_secs(5);
const SHORT_TIMEOUT: Duration = Duration::from_millis(15);
/// channel capacity learned in this process: the occupancy at which a granted send blocked
static LEARNED_CAP: AtomicUsize = AtomicUsize::new(usize::MAX);

impl PipeRun {
    pub fn new(t: usize, n: usize) -> Result<Self, String> {
        let ctrl = Serial::new(t);
        let calls: Arc<Vec<AtomicUsize>> = Arc::new((0..n.min(4096)).map(|_| AtomicUsize::new(0)).collect());
        let pulled = Arc::new(AtomicUsize::new(0));
        let upstream_dropped = Arc::new(AtomicUsize::new(0));
        let up = Upstream {
            next: 0,
            n,
            pulled: pulled.clone(),
            dropped: upstream_dropped.clone(),
        };
        let calls2 = calls.clone();
        let pipeline: text_utils::data::Pipeline<usize, Item> = Arc::new(move |x: usize| {
            if let Some(c) = calls2.get(x) {
                c.fetch_add(1, Ordering::SeqCst);
            }
            (x, f_of(x))
        });
        text_utils::verif::install(Some(ctrl.clone() as Arc<dyn Controller>));
        let pipe = up.pipe(pipeline, t as u8);
        text_utils::verif::install(None);
        crate::engine::install_panic_hook();
        let run = PipeRun {
            ctrl,
            t,
            n,
            cap: t,
            pipe: Some(pipe),
            received: vec![],
            calls,
            pulled,
            recvs: 0,
            ended: false,
            dropped: false,
            epoch: 1,
            spin_epoch: vec![0; t],
            blocked: vec![false; t],
            last: None,
            steps: 0,
            preemptions: 0,
            classes: vec![],
            upstream_dropped,
            forced_send: false,
        };
        let mut run = run;
        if t > 0 && !run.ctrl.wait_quiescent(Duration::from_secs(3)) {
            // not every announced worker thread exists: carry on with those that do, the oracle
            // decides whether the stream is still the sequential map
            if run.ctrl.mark_absent() > 0 {
                run.class("worker_missing");
            }
            if !run.ctrl.wait_quiescent(Duration::from_secs(3)) {
                return Err("workers did not reach their first schedule point".into());
            }
        }
        Ok(run)
    }

    fn class(&mut self, c: &'static str) {
        if !self.classes.contains(&c) {
            self.classes.push(c);
        }
    }

    pub fn sends_ok(&self) -> usize {
        self.ctrl
            .trace()
            .iter()
            .filter(|e| e.point == Point::AfterSend && e.ok == Some(true))
            .count()
    }

    pub fn occupancy(&self) -> isize {
        self.sends_ok() as isize - self.recvs as isize
    }

    pub fn all_exited(&self) -> bool {
        self.ctrl.snapshot().iter().all(|w| *w == WState::Exited)
    }

    pub fn enabled(&mut self) -> Vec<Actor> {
        let mut v = vec![];
        let snap = self.ctrl.snapshot();
        let occ = self.occupancy();
        let any_blocked = self.blocked.iter().any(|b| *b);
        if !self.dropped && !self.ended && (occ > 0 || snap.iter().all(|w| *w == WState::Exited) || any_blocked) {
            v.push(Actor::Consumer);
        }
        let mut full = false;
        let mut at_send: Vec<usize> = vec![];
        for (w, s) in snap.iter().enumerate() {
            if self.blocked[w] {
                continue;
            }
            match s {
                WState::Parked(Point::TurnSpin, _, _) => {
                    if self.spin_epoch[w] < self.epoch {
                        v.push(Actor::Worker(w));
                    }
                }
                WState::Parked(Point::BeforeSend, _, _) => {
                    let cap = self.cap.min(LEARNED_CAP.load(Ordering::Relaxed));
                    if self.dropped || occ < cap as isize {
                        v.push(Actor::Worker(w));
                    } else {
                        full = true;
                        at_send.push(w);
                    }
                }
                WState::Parked(..) => v.push(Actor::Worker(w)),
                _ => {}
            }
        }
        if full {
            self.class("channel_full");
        }
        if v.is_empty() && !at_send.is_empty() {
            // the model says every sender would block and nobody else can move: the model may be
            // wrong about the capacity (e.g. a rendezvous channel) - let one sender try
            self.forced_send = true;
            v.push(Actor::Worker(at_send[0]));
        }
        v
    }

    /// Execute one step of `a`. Err = an oracle-independent failure (hang-like).
    pub fn step(&mut self, a: Actor, enabled: &[Actor]) -> Result<(), String> {
        self.steps += 1;
        if let Some(l) = self.last {
            if l != a && enabled.contains(&l) {
                self.preemptions += 1;
                // preemption inside another worker's send window?
                if let Actor::Worker(lw) = l {
                    if let WState::Parked(p, _, _) = self.ctrl.snapshot()[lw] {
                        if matches!(p, Point::BeforeSend | Point::AfterSend) {
                            self.class("preempt_in_send_window");
                        }
                    }
                }
            }
        }
        self.last = Some(a);
        match a {
            Actor::Consumer => {
                crate::engine::beat();
                let item = self.pipe.as_mut().expect("pipe").next();
                match item {
                    Some(it) => {
                        self.received.push(it);
                        self.recvs += 1;
                    }
                    None => self.ended = true,
                }
                self.epoch += 1;
                // a receive may unblock a worker that sits inside send()
                for w in 0..self.t {
                    if self.blocked[w] {
                        self.blocked[w] = false;
                        let _ = self.ctrl.wait_quiescent(Duration::from_millis(200));
                    }
                }
            }
            Actor::Worker(w) => {
                let before = self.ctrl.snapshot()[w];
                crate::engine::beat();
                let at_send = matches!(before, WState::Parked(Point::BeforeSend, _, _));
                let occ = self.occupancy().max(0) as usize;
                let known = LEARNED_CAP.load(Ordering::Relaxed) != usize::MAX;
                let timeout = if at_send && known && (self.forced_send || occ >= LEARNED_CAP.load(Ordering::Relaxed)) {
                    SHORT_TIMEOUT
                } else {
                    GRANT_TIMEOUT
                };
                self.forced_send = false;
                if !self.ctrl.grant(w, timeout) {
                    self.blocked[w] = true;
                    self.class("blocked_in_primitive");
                    if at_send && !self.dropped {
                        LEARNED_CAP.fetch_min(occ, Ordering::Relaxed);
                    }
                    return Ok(());
                }
                let after = self.ctrl.snapshot()[w];
                let spun = matches!(before, WState::Parked(Point::TurnSpin, _, _))
                    && matches!(after, WState::Parked(Point::TurnSpin, _, _));
                if spun || (matches!(after, WState::Parked(Point::TurnSpin, _, _)) && !matches!(before, WState::Parked(Point::TurnSpin, _, _))) {
                    // (re-)entered the spin: may be tried again only after someone else progressed
                    self.spin_epoch[w] = self.epoch + if spun { 0 } else { 1 };
                }
                if !spun {
                    self.epoch += 1;
                }
                // classes
                if let WState::Parked(Point::AfterCompute, Some(i), _) = after {
                    let snap = self.ctrl.snapshot();
                    if snap.iter().enumerate().any(|(o, s)| o != w && matches!(s, WState::Parked(Point::AfterTicket, Some(j), _) if *j < i)) {
                        self.class("out_of_order_compute");
                    }
                    if snap.iter().enumerate().any(|(o, s)| o != w && matches!(s, WState::Parked(Point::AfterCompute | Point::TurnSpin | Point::BeforeSend, _, _))) {
                        self.class("two_workers_past_compute");
                    }
                }
            }
        }
        Ok(())
    }

    pub fn drop_pipe(&mut self) {
        self.pipe = None;
        self.dropped = true;
        self.epoch += 1;
        for w in 0..self.t {
            if self.blocked[w] {
                self.blocked[w] = false;
            }
        }
        let _ = self.ctrl.wait_quiescent(Duration::from_millis(500));
    }

    /// release everything (end of a case): workers run freely and exit
    pub fn finish(&mut self) {
        self.pipe = None;
        self.ctrl.release_all();
    }
}

impl Drop for PipeRun {
    fn drop(&mut self) {
        self.finish();
    }
}
