//! Reference models, written from the property statements, sharing no code with /repo/src.
#![allow(dead_code)]
use std::collections::{HashMap, HashSet, VecDeque};

pub fn is_ws(s: &str) -> bool {
    !s.is_empty() && s.chars().all(char::is_whitespace)
}

// ---------------------------------------------------------------------------------------
// edit distance (C12): suffix recursion, memoised. Levenshtein, or optimal string alignment
// (adjacent transposition costs one, no substring edited twice) when `swap`; whitespace is
// never substituted or transposed when `ws_only`.

/// min over all prefixes b[..k] of the distance between a and b[..k], in one pass: the suffix
/// recursion on the reversed strings has d(a, b[..k]) in row 0 (both metrics are invariant under
/// reversing both strings)
pub fn ref_prefix_distance(a: &[&str], b: &[&str], swap: bool, ws_only: bool) -> usize {
    let ra: Vec<&str> = a.iter().rev().copied().collect();
    let rb: Vec<&str> = b.iter().rev().copied().collect();
    let (_, memo) = ref_distance_table(&ra, &rb, swap, ws_only, true);
    (0..=rb.len()).map(|j| memo[0][j]).min().unwrap()
}

pub fn ref_distance(a: &[&str], b: &[&str], swap: bool, ws_only: bool) -> usize {
    ref_distance_table(a, b, swap, ws_only, false).0
}

fn ref_distance_table(a: &[&str], b: &[&str], swap: bool, ws_only: bool, full_row0: bool) -> (usize, Vec<Vec<usize>>) {
    let n = a.len();
    let m = b.len();
    // memo[i][j] = distance between a[i..] and b[j..]
    let mut memo = vec![vec![usize::MAX; m + 1]; n + 1];
    fn go(
        i: usize,
        j: usize,
        a: &[&str],
        b: &[&str],
        swap: bool,
        ws_only: bool,
        memo: &mut Vec<Vec<usize>>,
    ) -> usize {
        if memo[i][j] != usize::MAX {
            return memo[i][j];
        }
        let n = a.len();
        let m = b.len();
        let r = if i == n {
            m - j
        } else if j == m {
            n - i
        } else {
            let mut best = 1 + go(i + 1, j, a, b, swap, ws_only, memo); // delete a[i]
            best = best.min(1 + go(i, j + 1, a, b, swap, ws_only, memo)); // insert b[j]
            if a[i] == b[j] {
                best = best.min(go(i + 1, j + 1, a, b, swap, ws_only, memo));
            } else if !(ws_only && (is_ws(a[i]) || is_ws(b[j]))) {
                best = best.min(1 + go(i + 1, j + 1, a, b, swap, ws_only, memo));
            }
            if swap
                && i + 1 < n
                && j + 1 < m
                && a[i] == b[j + 1]
                && a[i + 1] == b[j]
                && !(ws_only && (is_ws(a[i]) || is_ws(a[i + 1])))
            {
                best = best.min(1 + go(i + 2, j + 2, a, b, swap, ws_only, memo));
            }
            best
        };
        memo[i][j] = r;
        r
    }
    if full_row0 {
        // fill from the far end so that the recursion depth stays small
        for j in (0..=m).rev() {
            go(0, j, a, b, swap, ws_only, &mut memo);
        }
    }
    let d = go(0, 0, a, b, swap, ws_only, &mut memo);
    (d, memo)
}

/// breadth-first search over single-character edits (Levenshtein only), for validating the
/// reference itself on tiny strings over `alphabet`.
pub fn bfs_levenshtein(a: &[&str], b: &[&str], alphabet: &[&str]) -> usize {
    let start: Vec<String> = a.iter().map(|s| s.to_string()).collect();
    let goal: Vec<String> = b.iter().map(|s| s.to_string()).collect();
    let max_len = a.len().max(b.len()) + 1;
    let mut seen: HashSet<Vec<String>> = HashSet::new();
    let mut q = VecDeque::new();
    seen.insert(start.clone());
    q.push_back((start, 0usize));
    while let Some((cur, d)) = q.pop_front() {
        if cur == goal {
            return d;
        }
        let mut nexts = vec![];
        for i in 0..cur.len() {
            let mut v = cur.clone();
            v.remove(i);
            nexts.push(v);
            for c in alphabet {
                if cur[i] != *c {
                    let mut v = cur.clone();
                    v[i] = c.to_string();
                    nexts.push(v);
                }
            }
        }
        if cur.len() < max_len {
            for i in 0..=cur.len() {
                for c in alphabet {
                    let mut v = cur.clone();
                    v.insert(i, c.to_string());
                    nexts.push(v);
                }
            }
        }
        for v in nexts {
            if seen.insert(v.clone()) {
                q.push_back((v, d + 1));
            }
        }
    }
    usize::MAX
}

pub fn self_test_distance() -> Result<(), String> {
    // all pairs of strings of length <= 3 over {a, b}
    let alpha = ["a", "b"];
    let mut all: Vec<Vec<&str>> = vec![vec![]];
    let mut frontier: Vec<Vec<&str>> = vec![vec![]];
    for _ in 0..3 {
        let mut next = vec![];
        for f in &frontier {
            for c in alpha {
                let mut v = f.clone();
                v.push(c);
                next.push(v);
            }
        }
        all.extend(next.iter().cloned());
        frontier = next;
    }
    for a in &all {
        for b in &all {
            let r = ref_distance(a, b, false, false);
            let g = bfs_levenshtein(a, b, &alpha);
            if r != g {
                return Err(format!("reference distance {r} != bfs {g} for {a:?} {b:?}"));
            }
        }
    }
    // a few hand-computed OSA values
    let chk = |a: &str, b: &str, swap, ws, want: usize| -> Result<(), String> {
        let av: Vec<&str> = a.split("").filter(|s| !s.is_empty()).collect();
        let bv: Vec<&str> = b.split("").filter(|s| !s.is_empty()).collect();
        let got = ref_distance(&av, &bv, swap, ws);
        if got != want {
            return Err(format!("ref_distance({a:?},{b:?},{swap},{ws}) = {got}, want {want}"));
        }
        Ok(())
    };
    chk("ab", "ba", true, false, 1)?;
    chk("ab", "ba", false, false, 2)?;
    chk("ca", "abc", true, false, 3)?; // OSA, not Damerau (which would be 2)
    chk("a b", "ab", false, true, 1)?;
    chk("a b", "axb", false, true, 2)?;
    chk("a b", "axb", false, false, 1)?;
    chk("a b", "ba ", true, true, 2)?;
    chk("this is a test", "tihsi s a test", true, false, 2)?;
    chk("this is a test", "tihsi s a test", true, true, 3)?;
    chk("this is a test", "tihsi s a test", false, false, 4)?;
    Ok(())
}

// ---------------------------------------------------------------------------------------
// longest common subsequence length (C18, C13)

pub fn lcs_len<T: PartialEq>(a: &[T], b: &[T]) -> usize {
    let mut d = vec![vec![0usize; b.len() + 1]; a.len() + 1];
    for i in (0..a.len()).rev() {
        for j in (0..b.len()).rev() {
            d[i][j] = if a[i] == b[j] {
                d[i + 1][j + 1] + 1
            } else {
                d[i + 1][j].max(d[i][j + 1])
            };
        }
    }
    d[0][0]
}

// ---------------------------------------------------------------------------------------
// naive BPE (C03): rescan, lowest merge id, leftmost

/// split like the pattern `\s+\S+|^\S+`: each word carries its leading whitespace run; trailing
/// whitespace belongs to no word.
pub fn split_ws_words(s: &str) -> Vec<&str> {
    let mut words = vec![];
    let cs: Vec<(usize, char)> = s.char_indices().collect();
    let mut i = 0;
    let n = cs.len();
    while i < n {
        let start = i;
        while i < n && cs[i].1.is_whitespace() {
            i += 1;
        }
        let ws_end = i;
        while i < n && !cs[i].1.is_whitespace() {
            i += 1;
        }
        if i > ws_end {
            let b0 = cs[start].0;
            let b1 = if i < n { cs[i].0 } else { s.len() };
            words.push(&s[b0..b1]);
        }
    }
    words
}

/// table: merged bytes -> merge id. Returns token ids (bytes 0..255, merges 256 + id).
pub fn naive_bpe_word(word: &[u8], table: &HashMap<Vec<u8>, u32>) -> (Vec<u32>, BpeTrace) {
    let mut toks: Vec<(Vec<u8>, u32)> = word.iter().map(|b| (vec![*b], *b as u32)).collect();
    let mut trace = BpeTrace::default();
    loop {
        let mut best: Option<(u32, usize)> = None;
        let mut count_best = 0;
        for i in 0..toks.len().saturating_sub(1) {
            let cat = [toks[i].0.as_slice(), toks[i + 1].0.as_slice()].concat();
            if let Some(&id) = table.get(&cat) {
                match best {
                    None => {
                        best = Some((id, i));
                        count_best = 1;
                    }
                    Some((bid, _)) if id < bid => {
                        best = Some((id, i));
                        count_best = 1;
                    }
                    Some((bid, _)) if id == bid => count_best += 1,
                    _ => {}
                }
            }
        }
        let Some((id, i)) = best else { break };
        if count_best > 1 {
            trace.tie_same_id = true;
        }
        if toks[i].1 >= 256 || toks[i + 1].1 >= 256 {
            trace.depth2 = true;
        }
        let cat = [toks[i].0.as_slice(), toks[i + 1].0.as_slice()].concat();
        toks[i] = (cat, 256 + id);
        toks.remove(i + 1);
        trace.merges += 1;
    }
    (toks.into_iter().map(|t| t.1).collect(), trace)
}

/// The same specification as `naive_bpe_word`, implemented for long words (tens of kilobytes):
/// tokens are byte ranges in a doubly linked list, candidates (merge id, start of the left token)
/// live in an ordered set, and only the neighbourhood of a merge is re-examined. `self_test_bpe`
/// compares it with the rescanning version on generated words.
pub fn fast_bpe_word(word: &[u8], table: &HashMap<Vec<u8>, u32>) -> Vec<u32> {
    use std::collections::BTreeSet;
    let n = word.len();
    if n == 0 {
        return vec![];
    }
    // node i = token starting at byte i (alive[i]); end[i] = exclusive end; prev/next = starts
    let mut end: Vec<usize> = (1..=n).collect();
    let mut prev: Vec<usize> = (0..n).map(|i| i.wrapping_sub(1)).collect();
    let mut alive = vec![true; n];
    let none = usize::MAX;
    prev[0] = none;
    let next_of = |end: &Vec<usize>, i: usize| -> usize { if end[i] < n { end[i] } else { none } };
    let mut cand: BTreeSet<(u32, usize)> = BTreeSet::new();
    let pair_id = |end: &Vec<usize>, l: usize, r: usize| -> Option<u32> { table.get(&word[l..end[r]]).copied() };
    for i in 0..n - 1 {
        if let Some(id) = pair_id(&end, i, i + 1) {
            cand.insert((id, i));
        }
    }
    while let Some(&(id, l)) = cand.iter().next() {
        cand.remove(&(id, l));
        debug_assert!(alive[l]);
        let r = next_of(&end, l);
        debug_assert!(r != none && alive[r]);
        let p = prev[l];
        let nx = next_of(&end, r);
        // candidates that involve l or r as they were
        if p != none {
            if let Some(i) = pair_id(&end, p, l) {
                cand.remove(&(i, p));
            }
        }
        if nx != none {
            if let Some(i) = pair_id(&end, r, nx) {
                cand.remove(&(i, r));
            }
        }
        // merge r into l
        end[l] = end[r];
        alive[r] = false;
        if nx != none {
            prev[nx] = l;
        }
        if p != none {
            if let Some(i) = pair_id(&end, p, l) {
                cand.insert((i, p));
            }
        }
        if nx != none {
            if let Some(i) = pair_id(&end, l, nx) {
                cand.insert((i, l));
            }
        }
    }
    let mut out = vec![];
    let mut i = 0;
    while i < n {
        if end[i] - i == 1 {
            out.push(word[i] as u32);
        } else {
            out.push(256 + table[&word[i..end[i]]]);
        }
        i = end[i];
    }
    out
}

pub fn self_test_bpe() -> Result<(), String> {
    // deterministic pseudo-random words over {a,b,c} against tables with competing merges
    let tables: Vec<Vec<&str>> = vec![
        vec!["ab", "bc", "abc", "ca", "abca", "aa", "aaa", "aaaa"],
        vec!["bc", "abc", "ab", "cab", "bb", "bbb", "abab"],
        vec!["aa", "aaaa", "ab", "ba", "aba", "abaab"],
    ];
    let mut x: u64 = 0x9e3779b97f4a7c15;
    for t in &tables {
        let table: HashMap<Vec<u8>, u32> = t.iter().enumerate().map(|(i, e)| (e.as_bytes().to_vec(), i as u32)).collect();
        for len in 0..60 {
            for _ in 0..20 {
                let mut w = vec![];
                for _ in 0..len {
                    x ^= x << 13;
                    x ^= x >> 7;
                    x ^= x << 17;
                    w.push(b"abc"[(x % 3) as usize]);
                }
                let (slow, _) = naive_bpe_word(&w, &table);
                let fast = fast_bpe_word(&w, &table);
                if slow != fast {
                    return Err(format!("fast_bpe_word disagrees with naive_bpe_word on {:?}: {fast:?} vs {slow:?}", String::from_utf8_lossy(&w)));
                }
            }
        }
    }
    Ok(())
}

#[derive(Default, Debug, Clone)]
pub struct BpeTrace {
    pub merges: usize,
    pub depth2: bool,
    pub tie_same_id: bool,
}

// ---------------------------------------------------------------------------------------
// independent text normalisation (used where a string has no grapheme cluster that mixes
// whitespace with other code points, i.e. where cluster-wise and code-point-wise cleaning agree)

/// whitespace normal form: words joined by single spaces (C11's reference)
pub fn clean_model(s: &str) -> String {
    s.split_whitespace().collect::<Vec<_>>().join(" ")
}

/// 0 NFC, 1 NFD, 2 NFKC, 3 NFKD, applied to every extended grapheme cluster separately
pub fn normalize_model(s: &str, form: u8) -> String {
    use unicode_normalization::UnicodeNormalization;
    use unicode_segmentation::UnicodeSegmentation;
    s.graphemes(true)
        .map(|c| match form {
            0 => c.nfc().collect::<String>(),
            1 => c.nfd().collect::<String>(),
            2 => c.nfkc().collect::<String>(),
            _ => c.nfkd().collect::<String>(),
        })
        .collect()
}

pub fn mixed_free(s: &str) -> bool {
    use unicode_segmentation::UnicodeSegmentation;
    s.graphemes(true).all(|u| u.chars().all(char::is_whitespace) || !u.chars().any(char::is_whitespace))
}
