pub mod engine;
pub mod fuzzdec;
pub mod gen;
pub mod model;
pub mod props;
pub mod sched;
