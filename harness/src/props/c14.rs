//! C14 — whitespace corruption changes only whitespace and stays label-consistent.
use super::c04::{byte_kind, expect, Kind};
use super::common::*;
use crate::engine::*;
use crate::ensure;
use crate::gen;
use proptest::prelude::*;
use proptest::sample::select;
use serde::{Deserialize, Serialize};
use text_utils::data::preprocessing::{preprocessing, Part, PreprocessingFnConfig};
use text_utils::data::task::{train_task, TrainTaskConfig};
use text_utils::data::{TextDataInfo, TrainData, TrainTaskInput};
use text_utils::text::clean;
use text_utils::tokenization::{
    ByteGroups, ByteTokenizerConfig, GroupAggregation, TokenizeConfig, TokenizerConfig,
};
use text_utils::whitespace::{operations, repair};

#[derive(Debug, Clone, Serialize, Deserialize)]
pub struct Case {
    pub text: String,
    pub p_ins: f64,
    pub p_del: f64,
    pub seed: u64,
    pub graphemes: bool,
    pub corrupt_target: bool,
    pub kind: Kind,
    pub special: SpecialCfg,
}

pub struct C14;

pub fn by_kind_cfg(kind: &Kind, special: &SpecialCfg) -> TokenizerConfig {
    let Kind::Byte { graphemes, code_point_groups, pad_to, sum } = kind else { unreachable!() };
    TokenizerConfig {
        tokenize: TokenizeConfig::Byte(ByteTokenizerConfig {
            use_graphemes: *graphemes,
            pad_to_multiple_of: *pad_to,
            groups: if *code_point_groups { ByteGroups::CodePoints } else { ByteGroups::Bytes },
            aggregation: if *sum { GroupAggregation::Sum } else { GroupAggregation::Mean },
        }),
        special: special.to_config(),
    }
}

/// is `b` obtained from `a` by deleting only space characters?
fn by_deleting_spaces(a: &str, b: &str) -> bool {
    let av: Vec<char> = a.chars().collect();
    let bv: Vec<char> = b.chars().collect();
    let (mut i, mut j) = (0, 0);
    while i < av.len() {
        if j < bv.len() && av[i] == bv[j] {
            i += 1;
            j += 1;
        } else if av[i] == ' ' {
            i += 1;
        } else {
            return false;
        }
    }
    j == bv.len()
}

impl Prop for C14 {
    type Case = Case;
    const ID: &'static str = "C14";
    const FUZZ_TARGET: Option<&'static str> = Some("ws_corrupt");
    const FUZZ_RUNS: u64 = 500000;
    fn fuzz_decode(bytes: &[u8]) -> Option<Case> {
        crate::fuzzdec::c14(bytes)
    }
    const RULE: &'static str = "clean texts of 0-6 words x 1-5 characters (one in 40: up to 160 words) (code-point mode: arbitrary non-whitespace code points; grapheme mode: closed-pool clusters; one case in eight mixes in segmentation hazards - lone regional indicators, jamo, ZWJ, combining marks - where only the clauses that do not re-segment the corrupted text are asserted) x (p_ins, p_del) from {0, 0.05, 0.3, 0.7, 1}^2 minus (0,0) plus uniform draws x seed x use_graphemes x corrupted part x byte tokenizer with generated prefix/suffix; run through preprocessing(WhitespaceCorruption) and train_task(WhitespaceCorrection). Oracle: untouched part identical, same non-whitespace sequence, output clean, repair(operations(corrupted, original)) recovers the original, one label per character plus -1 on special positions, determinism in (text, seed) also on a fresh instance, p_del = 0 / p_ins = 0 laws, (0,0) rejected. Non-trivial: the output differs from the input by >= 1 insertion and >= 1 deletion and the text has a multi-byte character. Distinct = distinct serialised case.";
    const ESSENTIAL: &'static [&'static str] = &["inserted", "deleted", "inserted+deleted", "p_del_0", "p_ins_0", "unchanged", "graphemes", "code_points", "prefix_suffix", "rejected_0_0", "unstable_mixed_free", "longer_than_256_characters"];

    fn budget(tier: Tier) -> Budget {
        match tier {
            Tier::Quick => Budget { cases: 9000, shards: 16 },
            Tier::Thorough => Budget { cases: 360000, shards: 16 },
        }
    }

    fn strategy(_tier: Tier, _shard: u32) -> BoxedStrategy<Case> {
        let p = || prop_oneof![4 => select(vec![0.0f64, 0.05, 0.3, 0.7, 1.0]), 1 => 0.0f64..=1.0];
        (any::<bool>(), special_cfg())
            .prop_flat_map(move |(g, special)| {
                // one text in 40 is long (up to ~600 characters: beyond 256, the block sizes of
                // chunked implementations)
                let text = if g {
                    prop_oneof![35 => gen::clean_text(true, 6, 5), 5 => gen::hazard_clean_text(5, 4), 1 => gen::clean_text(true, 160, 5)].boxed()
                } else {
                    prop_oneof![39 => gen::clean_text(false, 6, 5), 1 => gen::clean_text(false, 160, 5)].boxed()
                };
                (text, p(), p(), any::<u64>(), any::<bool>(), byte_kind())
                    .prop_map(move |(text, p_ins, p_del, seed, corrupt_target, kind)| Case {
                        text,
                        p_ins,
                        p_del,
                        seed,
                        graphemes: g,
                        corrupt_target,
                        kind,
                        special: special.clone(),
                    })
            })
            .boxed()
    }

    fn assumptions() -> Vec<String> {
        vec![
            "grapheme mode: every clause on closed-pool clusters; on unstable texts without a mixed cluster everything except operations/repair/labels and the cluster-level sequence (KF2 is the recorded finding for texts whose clusters fuse when a space disappears)".into(),
            "the (0,0) configuration is rejected by an assertion at construction time; the panic is the rejection".into(),
            "the byte tokenizer of the task ignores special-token spellings in the text (tokenize(.., true)), as the task does".into(),
        ]
    }

    fn check(c: &Case, strict: bool) -> Outcome {
        let mut out = Outcome::new();
        let g = c.graphemes;
        out.label(if g { "graphemes" } else { "code_points" });
        out.label_if(c.text.chars().count() > 256, "longer_than_256_characters");
        // grapheme mode outside the segmentation-stable domain: texts without a mixed cluster are
        // inside the quantifier; the clauses that do not re-segment the corrupted text are
        // asserted there (untouched part, determinism, same non-whitespace code points,
        // code-point-level cleanliness, the p = 0 laws); operations/repair/labels are where
        // KF2 lives and are left out
        let unstable = g && !strict && !gen::is_stable(&c.text);
        if unstable {
            let mixed = gen::clusters(&c.text, true).iter().any(|u| u.chars().any(char::is_whitespace) && !u.chars().all(char::is_whitespace));
            if mixed || clean(&c.text, false) != c.text {
                out.discard = Some("mixed_cluster_in_grapheme_mode");
                return out;
            }
            out.label("unstable_mixed_free");
            out.label("kf2_class_excluded_from_inverse_clauses");
        }
        ensure!(out, clean(&c.text, g) == c.text, "harness generated an unclean text {:?}", c.text);
        let part = if c.corrupt_target { Part::Target } else { Part::Input };
        if c.p_ins <= 0.0 && c.p_del <= 0.0 {
            out.label("rejected_0_0");
            let r = catch(|| {
                let f = preprocessing(PreprocessingFnConfig::WhitespaceCorruption(part.clone(), 0.0, 0.0, g));
                f(TrainData::new(c.text.clone(), None), TextDataInfo::default()).map(|x| x.0.verif_input().to_string()).ok()
            });
            ensure!(out, r.is_err(), "WhitespaceCorruption with both probabilities 0 was accepted: {r:?}");
            return out;
        }
        let make = || preprocessing(PreprocessingFnConfig::WhitespaceCorruption(part.clone(), c.p_ins, c.p_del, g));
        let f = make();
        let run = |f: &dyn Fn(TrainData, TextDataInfo) -> anyhow::Result<(TrainData, TextDataInfo)>| -> Result<(String, String), String> {
            let info = TextDataInfo { seed: c.seed, ..Default::default() };
            f(TrainData::new(c.text.clone(), None), info)
                .map(|(d, _)| (d.verif_input().to_string(), d.verif_target().to_string()))
                .map_err(|e| e.to_string())
        };
        let (input, target) = match run(&*f) {
            Ok(x) => x,
            Err(e) => {
                out.fail(format!("corruption failed: {e}"));
                return out;
            }
        };
        let (corrupted, untouched) = if c.corrupt_target { (&target, &input) } else { (&input, &target) };
        ensure!(out, *untouched == c.text, "the untouched part changed: {untouched:?} vs {:?}", c.text);
        // determinism, same instance and fresh instance
        for rep in 0..4 {
            if rep == 2 {
                // another text and another seed in between: no state may be carried over
                let _ = f(TrainData::new(format!("{} x y", c.text), None), TextDataInfo { seed: c.seed ^ 0x5a5a, ..Default::default() });
            }
            ensure!(out, run(&*f) == Ok((input.clone(), target.clone())), "same (text, seed), different output on the same instance (call {})", rep + 2);
        }
        let f2 = make();
        ensure!(out, run(&*f2) == Ok((input.clone(), target.clone())), "same (text, seed), different output on a fresh instance");
        // only whitespace changed
        let units = |t: &str| -> Vec<String> {
            gen::clusters(t, g).into_iter().filter(|u| !u.chars().all(char::is_whitespace)).map(str::to_string).collect()
        };
        if unstable {
            let cps = |t: &str| t.chars().filter(|ch| !ch.is_whitespace()).collect::<String>();
            ensure!(out, cps(corrupted) == cps(&c.text), "non-whitespace code points changed: {:?} -> {corrupted:?}", c.text);
            ensure!(out, clean(corrupted, false) == *corrupted, "corrupted text {corrupted:?} is not whitespace-clean");
            out.label_if(*corrupted == c.text, "unchanged");
            if c.p_del <= 0.0 {
                out.label("p_del_0");
                ensure!(out, by_deleting_spaces(corrupted, &c.text), "p_del = 0 but whitespace disappeared: {:?} -> {corrupted:?}", c.text);
            }
            if c.p_ins <= 0.0 {
                out.label("p_ins_0");
                ensure!(out, by_deleting_spaces(&c.text, corrupted), "p_ins = 0 but whitespace appeared: {:?} -> {corrupted:?}", c.text);
            }
            return out;
        }
        ensure!(out, units(corrupted) == units(&c.text), "non-whitespace character sequence changed: {:?} -> {corrupted:?}", c.text);
        ensure!(out, clean(corrupted, g) == *corrupted, "corrupted text {corrupted:?} is not whitespace-clean");
        let ops = match operations(corrupted, &c.text, g) {
            Ok(o) => o,
            Err(e) => {
                out.fail(format!("operations(corrupted, original) failed: {}", e.to_string().lines().next().unwrap_or("")));
                return out;
            }
        };
        let nchars = gen::clusters(corrupted, g).len();
        ensure!(out, ops.len() == nchars, "{} operations for {nchars} characters", ops.len());
        match repair(corrupted, &ops, g) {
            Ok(r) => ensure!(out, r == c.text, "repair(corrupted, operations(corrupted, original)) = {r:?}, original {:?}", c.text),
            Err(e) => {
                out.fail(format!("repair failed: {e}"));
                return out;
            }
        }
        let inserted = !by_deleting_spaces(&c.text, corrupted) || corrupted.len() > c.text.len();
        let deleted = !by_deleting_spaces(corrupted, &c.text) || corrupted.len() < c.text.len();
        let ins_any = ops.iter().any(|o| *o == text_utils::whitespace::Operation::Delete); // a space to delete was inserted
        let del_any = ops.iter().any(|o| *o == text_utils::whitespace::Operation::Insert);
        let _ = (inserted, deleted);
        out.label_if(ins_any, "inserted");
        out.label_if(del_any, "deleted");
        out.label_if(ins_any && del_any, "inserted+deleted");
        out.label_if(*corrupted == c.text, "unchanged");
        out.nontrivial = ins_any && del_any && c.text.chars().any(|ch| ch.len_utf8() > 1);
        if c.p_del <= 0.0 {
            out.label("p_del_0");
            ensure!(out, by_deleting_spaces(corrupted, &c.text), "p_del = 0 but whitespace disappeared: {:?} -> {corrupted:?}", c.text);
        }
        if c.p_ins <= 0.0 {
            out.label("p_ins_0");
            ensure!(out, by_deleting_spaces(&c.text, corrupted), "p_ins = 0 but whitespace appeared: {:?} -> {corrupted:?}", c.text);
        }
        // the whitespace correction task: one label per input character (input = corrupted)
        if !c.corrupt_target {
            let task = train_task(TrainTaskConfig::WhitespaceCorrection(g, by_kind_cfg(&c.kind, &c.special)));
            let data = TrainData::new(input.clone(), Some(target.clone()));
            match task(&data) {
                Ok(TrainTaskInput::SequenceClassification { token_ids, labels, pad_token_id }) => {
                    let np = c.special.prefix.len();
                    let ns = c.special.suffix.len();
                    out.label_if(np + ns > 0, "prefix_suffix");
                    ensure!(out, labels.len() == np + nchars + ns, "{} labels for {np} prefix + {nchars} characters + {ns} suffix tokens", labels.len());
                    ensure!(out, labels[..np].iter().all(|l| *l == -1) && labels[np + nchars..].iter().all(|l| *l == -1), "special positions are not labelled -1: {labels:?}");
                    let want: Vec<i32> = ops.iter().map(|o| *o as i32).collect();
                    ensure!(out, labels[np..np + nchars] == want[..], "labels {:?} != operations {want:?}", &labels[np..np + nchars]);
                    ensure!(out, token_ids.len() == np + input.len() + ns, "byte token count {} != {np} + {} bytes + {ns}", token_ids.len(), input.len());
                    let vocab = text_utils::tokenization::tokenizer(by_kind_cfg(&c.kind, &c.special)).and_then(|t| t.get_vocab());
                    let ex = match vocab.map_err(|e| e.to_string()).and_then(|v| expect(&c.kind, &c.special, &v)) {
                        Ok(e) => e,
                        Err(e) => {
                            out.fail(e);
                            return out;
                        }
                    };
                    let pad = (256 + ex.special.iter().position(|t| *t == c.special.pad).unwrap()) as u32;
                    ensure!(out, pad_token_id == pad, "pad id {pad_token_id} != {pad}");
                }
                Ok(other) => {
                    out.fail(format!("unexpected task input {other:?}"));
                    return out;
                }
                Err(e) => {
                    out.fail(format!("whitespace correction task failed on corrupted input {input:?} / target {target:?}: {}", e.to_string().lines().next().unwrap_or("")));
                    return out;
                }
            }
        }
        out
    }
}
