//! C07 — the multi-source generator yields every item exactly once and terminates.
use crate::engine::*;
use crate::ensure;
use proptest::prelude::*;
use serde::{Deserialize, Serialize};
use text_utils::data::loading::{
    GenerationStrategy, MaybeTrainData, MultiTrainDataGenerator, TrainDataGenerator,
};
use text_utils::data::TrainData;

#[derive(Debug, Clone, Serialize, Deserialize)]
pub struct Case {
    pub lengths: Vec<usize>,
    /// 0 sequential, 1 interleaved, 2 weighted
    pub strategy: u8,
    pub seed: u64,
    /// every k-th item (k = err_every, 0 = none) is an Err item
    pub err_every: usize,
}

pub struct C07;

fn sources(c: &Case) -> Vec<TrainDataGenerator> {
    let mut n = 0usize;
    c.lengths
        .iter()
        .enumerate()
        .map(|(src, len)| {
            let items: Vec<MaybeTrainData> = (0..*len)
                .map(|k| {
                    n += 1;
                    if c.err_every > 0 && n % c.err_every == 0 {
                        Err(anyhow::anyhow!("{src}:{k}"))
                    } else {
                        Ok(TrainData::new(format!("{src}:{k}"), None))
                    }
                })
                .collect();
            Box::new(items.into_iter()) as TrainDataGenerator
        })
        .collect()
}

fn strategy_of(s: u8) -> GenerationStrategy {
    match s {
        0 => GenerationStrategy::Sequential,
        1 => GenerationStrategy::Interleaved,
        _ => GenerationStrategy::Weighted,
    }
}

/// drain with a step bound; returns (source tag reported, "src:k" of the item)
fn drain(c: &Case) -> Result<Vec<(usize, String)>, String> {
    let total: usize = c.lengths.iter().sum();
    let mut g = MultiTrainDataGenerator::new(sources(c), strategy_of(c.strategy), Some(c.seed))
        .map_err(|e| format!("constructor failed: {e}"))?;
    if g.len() != total {
        return Err(format!("len() = {} but the sources hold {total} items", g.len()));
    }
    let mut v = vec![];
    let mut ended = false;
    for _ in 0..total + 2 {
        beat();
        match g.next() {
            Some((item, src)) => {
                let name = match item {
                    Ok(d) => d.verif_input().to_string(),
                    Err(e) => e.to_string(),
                };
                v.push((src, name));
            }
            None => {
                ended = true;
                break;
            }
        }
    }
    if !ended {
        return Err(format!("did not end within {} calls to next(): {v:?}", total + 2));
    }
    if g.next().is_some() {
        return Err("yielded an item after having returned None".into());
    }
    Ok(v)
}

impl Prop for C07 {
    type Case = Case;
    const ID: &'static str = "C07";
    const RULE: &'static str = "1-6 in-memory sources (occasionally up to 14, and 63-140 or ~260 short sources) with lengths 0..=6 (a long profile up to 200; zero only for non-weighted strategies; optionally every k-th item an Err item) x {sequential, interleaved, weighted} x seed; oracle: termination within total+2 calls (step bound; watchdog for calls that never return), exact sequence model for sequential and round-robin, multiset + per-source order + source tag + seed determinism for weighted. Non-trivial: >= 2 sources of unequal length, or an empty source, or a single source with the interleaved strategy. Distinct = distinct serialised case.";
    const CLAIMS_TERMINATION: bool = true;
    const HANG_SECS: u64 = 20;
    const ESSENTIAL: &'static [&'static str] = &["sequential", "interleaved", "weighted", "single_source", "empty_source", "unequal", "interleaved_tail", "more_than_64_sources"];

    fn budget(tier: Tier) -> Budget {
        match tier {
            Tier::Quick => Budget { cases: 48000, shards: 16 },
            Tier::Thorough => Budget { cases: 2688000, shards: 16 },
        }
    }

    fn strategy(_tier: Tier, _shard: u32) -> BoxedStrategy<Case> {
        (
            prop_oneof![
                10 => proptest::collection::vec(0usize..=6, 1..=6),
                1 => proptest::collection::vec(0usize..=200, 1..=4),
                1 => proptest::collection::vec(0usize..=5, 7..=14),
                // many sources (more than 64, 128, 256: word-size and table-size boundaries)
                1 => prop_oneof![Just(63usize), Just(64), Just(65), Just(66), 67usize..=140, 250usize..=270]
                    .prop_flat_map(|n| proptest::collection::vec(0usize..=3, n)),
            ],
            0u8..3,
            prop_oneof![0u64..8, any::<u64>()],
            prop_oneof![3 => Just(0usize), 1 => 1usize..5],
        )
            .prop_map(|(mut lengths, strategy, seed, err_every)| {
                if strategy == 2 {
                    for l in lengths.iter_mut() {
                        if *l == 0 {
                            *l = 1;
                        }
                    }
                }
                Case {
                    lengths,
                    strategy,
                    seed,
                    err_every,
                }
            })
            .boxed()
    }

    fn assumptions() -> Vec<String> {
        vec![
            "sources are in-memory ExactSizeIterators whose declared length equals their real length".into(),
            "a call to next() that does not return within 20 s (a > 10^6-fold slowdown), confirmed alone in a fresh process, counts as non-termination".into(),
            "weighted: the order itself is not modelled, only multiset / per-source order / tags / determinism".into(),
        ]
    }

    fn check(c: &Case, _strict: bool) -> Outcome {
        let mut out = Outcome::new();
        let n = c.lengths.len();
        let total: usize = c.lengths.iter().sum();
        out.label(match c.strategy {
            0 => "sequential",
            1 => "interleaved",
            _ => "weighted",
        });
        out.label_if(n == 1, "single_source");
        out.label_if(n > 64, "more_than_64_sources");
        out.label_if(c.lengths.iter().any(|l| *l == 0), "empty_source");
        let unequal = c.lengths.iter().any(|l| *l != c.lengths[0]);
        out.label_if(unequal, "unequal");
        // interleaved and at some point exactly one source still has items while >= 2 remain in it
        let mut sorted = c.lengths.clone();
        sorted.sort();
        let tail = if n >= 2 { sorted[n - 1] >= sorted[n - 2] + 2 } else { sorted[0] >= 2 };
        out.label_if(c.strategy == 1 && tail, "interleaved_tail");
        out.nontrivial = (n >= 2 && unequal) || c.lengths.iter().any(|l| *l == 0) || (n == 1 && c.strategy == 1);

        let got = match drain(c) {
            Ok(v) => v,
            Err(e) => {
                out.fail(e);
                return out;
            }
        };
        ensure!(out, got.len() == total, "yielded {} items, sources hold {total}: {got:?}", got.len());
        // tags
        for (src, name) in &got {
            ensure!(out, name.starts_with(&format!("{src}:")), "item {name:?} tagged with source {src}");
        }
        // per-source order and exactly-once
        let mut next_k = vec![0usize; n];
        for (src, name) in &got {
            ensure!(out, *src < n, "source tag {src} out of range");
            let want = format!("{src}:{}", next_k[*src]);
            ensure!(out, *name == want, "source {src}: got {name:?}, expected {want:?} next (per-source order / exactly once)");
            next_k[*src] += 1;
        }
        ensure!(out, next_k == c.lengths, "items per source {next_k:?} != {:?}", c.lengths);
        let order: Vec<usize> = got.iter().map(|g| g.0).collect();
        match c.strategy {
            0 => {
                let want: Vec<usize> = c.lengths.iter().enumerate().flat_map(|(i, l)| std::iter::repeat(i).take(*l)).collect();
                ensure!(out, order == want, "sequential order {order:?}, expected {want:?}");
            }
            1 => {
                let mut rem = c.lengths.clone();
                let mut want = vec![];
                let mut p = 0usize;
                while rem.iter().any(|r| *r > 0) {
                    if rem[p] > 0 {
                        rem[p] -= 1;
                        want.push(p);
                    }
                    p = (p + 1) % n;
                }
                ensure!(out, order == want, "interleaved order {order:?}, expected round-robin {want:?}");
            }
            _ => {
                let again = match drain(c) {
                    Ok(v) => v,
                    Err(e) => {
                        out.fail(e);
                        return out;
                    }
                };
                ensure!(out, again == got, "weighted: same seed gave a different sequence");
            }
        }
        out
    }
}
