//! C19 — BPE training is greedy-correct and always emits a well-formed merge table.
use super::common::*;
use crate::engine::*;
use crate::ensure;
use crate::model;
use proptest::prelude::*;
use proptest::sample::select;
use serde::{Deserialize, Serialize};
use std::collections::HashMap;
use text_utils::text::clean;
use text_utils::tokenization::{
    train_bpe, BPETokenizer, BPETokenizerConfig, MergeOps, SpecialConfig, Tokenize,
};
use text_utils::unicode::{normalize, Normalization};
use text_utils::utils::SerializeMsgPack;

#[derive(Debug, Clone, Serialize, Deserialize)]
pub struct Case {
    pub files: Vec<Vec<String>>,
    pub vocab_size: usize,
    pub num_special: usize,
    pub nfkc: bool,
    /// 0: `nfkc` decides (None / NFKC); 1 NFC, 2 NFD, 3 NFKD
    #[serde(default)]
    pub norm_kind: u8,
    pub threads: u8,
    pub max_lines: Option<usize>,
}

pub struct C19;

const LETTER_SETS: &[&[&str]] = &[
    &["a"],
    &["a", "b"],
    &["a", "b", "c"],
    &["a", "ä"],
    &["x", "中", "y"],
    &["a", "ﬁ", "b"],
    // the same letter precomposed and decomposed (composes under NFC/NFKC, decomposes under NFD/NFKD)
    &["a", "a\u{308}", "ä"],
    &["b", "e\u{301}"],
    &["\u{1100}\u{1161}", "가", "a"],
];

fn natural_lines() -> Vec<String> {
    std::fs::read_to_string("/repo/resources/test/multi30k.txt")
        .map(|s| s.lines().take(50).map(str::to_string).collect())
        .unwrap_or_default()
}

fn corpus() -> BoxedStrategy<Vec<Vec<String>>> {
    let small = select(LETTER_SETS).prop_flat_map(|letters| {
        let word = prop_oneof![16 => proptest::collection::vec(select(letters), 1..=7), 1 => proptest::collection::vec(select(letters), 8..=20)].prop_map(|v| v.concat());
        let line = prop_oneof![
            12 => (proptest::collection::vec(word, 1..=5), any::<bool>()).prop_map(|(w, dbl)| w.join(if dbl { "  " } else { " " })),
            1 => proptest::sample::select(vec!["", " ", "\t ", " a ", "\u{3000}b\u{a0}", BAD_LINE]).prop_map(str::to_string),
        ];
        // line counts at and around 256 / 512 (one or two files)
        let many = (select(vec![255usize, 256, 257, 511, 512, 513]), any::<bool>()).prop_flat_map({
            let line = line.clone();
            move |(n, split)| {
                proptest::collection::vec(line.clone(), n).prop_map(move |mut v| {
                    if split {
                        let rest = v.split_off(n / 3);
                        vec![v, rest]
                    } else {
                        vec![v]
                    }
                })
            }
        });
        prop_oneof![
            120 => proptest::collection::vec(proptest::collection::vec(line.clone(), 0..=4), 1..=2),
            10 => proptest::collection::vec(proptest::collection::vec(line, 0..=20), 1..=3),
            1 => many,
        ]
    });
    let nat = natural_lines();
    if nat.is_empty() {
        small.boxed()
    } else {
        prop_oneof![
            9 => small,
            1 => proptest::collection::vec(select(nat), 1..=3).prop_map(|l| vec![l]),
        ]
        .boxed()
    }
}

type Word = (Vec<Vec<u8>>, usize);

/// a corpus line equal to this marker is written as bytes that are not valid UTF-8
const BAD_LINE: &str = "\u{fffe}";

fn pair_freqs(words: &[Word]) -> HashMap<(Vec<u8>, Vec<u8>), usize> {
    let mut f: HashMap<(Vec<u8>, Vec<u8>), usize> = HashMap::new();
    for (toks, cnt) in words {
        for i in 1..toks.len() {
            *f.entry((toks[i - 1].clone(), toks[i].clone())).or_insert(0) += cnt;
        }
    }
    f
}

fn apply_merge(words: &[Word], pair: &(Vec<u8>, Vec<u8>)) -> Vec<Word> {
    words
        .iter()
        .map(|(toks, cnt)| {
            let mut nw: Vec<Vec<u8>> = vec![];
            let mut i = 0;
            while i < toks.len() {
                if i + 1 < toks.len() && toks[i] == pair.0 && toks[i + 1] == pair.1 {
                    nw.push([toks[i].as_slice(), toks[i + 1].as_slice()].concat());
                    i += 2;
                } else {
                    nw.push(toks[i].clone());
                    i += 1;
                }
            }
            (nw, *cnt)
        })
        .collect()
}

/// replay entries[i..] on `words`; ties and ambiguous splits are explored (depth-first)
fn replay(words: &[Word], entries: &[Vec<u8>], i: usize, requested: usize, budget: &mut usize, info: &mut ReplayInfo) -> Result<(), String> {
    let freqs = pair_freqs(words);
    let max = freqs.values().copied().max().unwrap_or(0);
    if i == entries.len() {
        if entries.len() < requested && max > 0 {
            return Err(format!("training stopped after {} of {requested} merges although a pair with frequency {max} is left", entries.len()));
        }
        return Ok(());
    }
    if *budget == 0 {
        return Ok(()); // give up exploring alternatives, never an alarm
    }
    *budget -= 1;
    let e = &entries[i];
    let cands: Vec<&(Vec<u8>, Vec<u8>)> = freqs
        .keys()
        .filter(|(x, y)| x.len() + y.len() == e.len() && e.starts_with(x) && e.ends_with(y))
        .collect();
    if cands.is_empty() {
        return Err(format!("merge {i} = {:?} is not the concatenation of any adjacent token pair of the corpus as segmented by merges 0..{i}", String::from_utf8_lossy(e)));
    }
    let best: Vec<_> = cands.iter().filter(|p| freqs[**p] == max && max > 0).collect();
    if best.is_empty() {
        let f = cands.iter().map(|p| freqs[*p]).max().unwrap_or(0);
        return Err(format!("merge {i} = {:?} has frequency {f}, the most frequent pair has {max}", String::from_utf8_lossy(e)));
    }
    if freqs.values().filter(|v| **v == max).count() > 1 {
        info.ties += 1;
    }
    let mut last = Ok(());
    for p in best {
        let nw = apply_merge(words, p);
        last = replay(&nw, entries, i + 1, requested, budget, info);
        if last.is_ok() {
            return Ok(());
        }
    }
    last
}

#[derive(Default)]
struct ReplayInfo {
    ties: usize,
}

impl Prop for C19 {
    type Case = Case;
    const ID: &'static str = "C19";
    const RULE: &'static str = "corpora of 1-2 files x 0-4 lines (occasionally up to 20 per file, and line totals of 255-257 / 511-513) x 1-5 words of length 1-7 over 1-3 letter alphabets (multi-byte and NFKC-expanding letters, the same letter precomposed and decomposed, Hangul jamo, double spaces), occasionally 1-3 natural sentences; x vocab_size in {256,320,384} x num_special_tokens 0..=70 (0-128 requested merges, usually more than the corpus supplies) x normalisation {None, NFKC, NFC, NFD, NFKD} x num_threads 0..=4 x max_lines_per_file. Oracle: table ids are exactly 0..n-1, n <= requested; replay with a full recount of all adjacent pair frequencies after every merge: entry i must be the concatenation of an adjacent pair whose frequency is positive and maximal (ties explored), training may stop early only when no pair is left; the table is well-formed and a BPETokenizer built from it round-trips the corpus lines and agrees with the table on ids. Non-trivial: a word with an overlapping or repeated pair, and (corpus exhausted before the request or >= 3 merges with a merged operand). Distinct = distinct serialised case.";
    const ESSENTIAL: &'static [&'static str] = &["exhausted", "overlap_or_repeat", "depth>=2", "tie", "threads>1", "zero_merges_requested", "full_request", "normalised", "255_or_more_lines", "undecodable_line"];

    fn budget(tier: Tier) -> Budget {
        match tier {
            Tier::Quick => Budget { cases: 1500, shards: 16 },
            Tier::Thorough => Budget { cases: 84000, shards: 16 },
        }
    }

    fn strategy(_tier: Tier, _shard: u32) -> BoxedStrategy<Case> {
        (
            corpus(),
            select(vec![256usize, 320, 320, 384]),
            prop_oneof![3 => 0usize..=70, 1 => 50usize..=64],
            any::<bool>(),
            prop_oneof![4 => Just(0u8), 1 => 1u8..=3],
            0u8..=4,
            prop_oneof![3 => Just(None), 1 => (0usize..4).prop_map(Some)],
        )
            .prop_map(|(files, vocab_size, num_special, nfkc, norm_kind, threads, max_lines)| Case {
                files,
                vocab_size,
                num_special,
                nfkc,
                norm_kind,
                threads,
                max_lines,
            })
            .boxed()
    }

    fn assumptions() -> Vec<String> {
        vec![
            "the line -> word map (clean, optional normalisation, words with their leading whitespace) is independent of the crate (split/join, per-cluster unicode-normalization) except for lines with a grapheme cluster that mixes whitespace and other code points, where the crate's public clean()/normalize() are used; independent scanner for `\\s+\\S+|^\\S+`".into(),
            "pair frequency = number of adjacent positions (overlapping occurrences counted), weighted by word count; merges are applied left to right without overlap".into(),
            "ties between equally frequent pairs are allowed (validity predicate, explored depth-first with a budget of 4000 nodes; an exhausted budget is never an alarm)".into(),
        ]
    }

    fn check(c: &Case, _strict: bool) -> Outcome {
        let mut out = Outcome::new();
        let dir = work_dir();
        let mut paths = vec![];
        for (i, lines) in c.files.iter().enumerate() {
            let p = dir.join(format!("c19-{i}.txt"));
            let mut s: Vec<u8> = vec![];
            for l in lines {
                if l == BAD_LINE {
                    // a line that is not valid UTF-8
                    s.extend_from_slice(&[0xff, 0xfe, b'z']);
                } else {
                    s.extend_from_slice(l.as_bytes());
                }
                s.push(b'\n');
            }
            std::fs::write(&p, s).expect("write corpus");
            paths.push(p);
        }
        let out_file = dir.join("c19.merges");
        let _ = std::fs::remove_file(&out_file);
        let requested = c.vocab_size.saturating_sub(256).saturating_sub(c.num_special);
        out.label_if(requested == 0, "zero_merges_requested");
        out.label_if(c.threads > 1, "threads>1");
        out.label_if(c.files.iter().map(|f| f.len()).sum::<usize>() >= 255, "255_or_more_lines");
        let norm = match c.norm_kind {
            1 => Some(Normalization::NFC),
            2 => Some(Normalization::NFD),
            3 => Some(Normalization::NFKD),
            _ if c.nfkc => Some(Normalization::NFKC),
            _ => None,
        };
        out.label_if(norm.is_some(), "normalised");
        let r = train_bpe(&paths, c.vocab_size, c.num_special, &out_file, c.max_lines, norm, c.threads, false);
        install_panic_hook();
        if let Err(e) = r {
            out.fail(format!("train_bpe failed: {e}"));
            return out;
        }
        let table: MergeOps = match MergeOps::load(&out_file) {
            Ok(t) => t,
            Err(e) => {
                out.fail(format!("merge table cannot be loaded: {e}"));
                return out;
            }
        };
        let n = table.len();
        ensure!(out, n <= requested, "{n} merges written, {requested} requested");
        let mut entries: Vec<Option<Vec<u8>>> = vec![None; n];
        for (bytes, id) in &table {
            ensure!(out, (*id as usize) < n, "merge id {id} but the table has {n} entries: ids are not 0..n-1 ({:?})", {
                let mut ids: Vec<u32> = table.values().copied().collect();
                ids.sort();
                ids
            });
            ensure!(out, entries[*id as usize].is_none(), "merge id {id} used twice");
            entries[*id as usize] = Some(bytes.clone());
        }
        let entries: Vec<Vec<u8>> = entries.into_iter().map(|e| e.unwrap()).collect();
        out.label_if(n == requested && n > 0, "full_request");
        out.label_if(n < requested, "exhausted");
        // corpus as word -> count. A line that is not valid UTF-8 has two defensible readings: it is
        // skipped (what the reader does today) or decoded lossily; a table is accepted if it is
        // greedy-correct under one of them
        let has_bad_line = c.files.iter().flatten().any(|l| l == BAD_LINE);
        out.label_if(has_bad_line, "undecodable_line");
        let mut mixed_line = false;
        let mut build = |lossy: bool| -> (Vec<Word>, bool, Vec<String>) {
        let mut counts: HashMap<String, usize> = HashMap::new();
        let mut overlap = false;
        let mut lines_used: Vec<String> = vec![];
        for lines in &c.files {
            for l in lines.iter().take(c.max_lines.unwrap_or(usize::MAX)) {
                let lossy_line;
                let l = if l == BAD_LINE {
                    if !lossy {
                        continue;
                    }
                    lossy_line = "\u{fffd}\u{fffd}z".to_string();
                    &lossy_line
                } else {
                    l
                };
                // the corpus as train_bpe is documented to see it: cleaned, then normalised. On
                // lines without a mixed cluster this is computed independently of the crate's
                // helpers (split/join, per-cluster normalisation with unicode-normalization)
                let form = norm.map(|n| match n {
                    Normalization::NFC => 0u8,
                    Normalization::NFD => 1,
                    Normalization::NFKC => 2,
                    Normalization::NFKD => 3,
                });
                let l = if model::mixed_free(l) {
                    let cl = model::clean_model(l);
                    match form {
                        Some(f) => model::normalize_model(&cl, f),
                        None => cl,
                    }
                } else {
                    mixed_line = true;
                    let mut l = clean(l, true);
                    if let Some(n) = norm {
                        l = normalize(&l, n, true);
                    }
                    l
                };
                for w in model::split_ws_words(&l) {
                    *counts.entry(w.to_string()).or_insert(0) += 1;
                    let b = w.as_bytes();
                    for i in 2..b.len() {
                        if b[i] == b[i - 1] && b[i - 1] == b[i - 2] {
                            overlap = true;
                        }
                    }
                    for i in 0..b.len().saturating_sub(1) {
                        if b[i + 2..].windows(2).any(|x| x == &b[i..i + 2]) {
                            overlap = true;
                        }
                    }
                }
                lines_used.push(l);
            }
        }
        let mut words: Vec<Word> = counts
            .iter()
            .map(|(w, c)| (w.as_bytes().iter().map(|b| vec![*b]).collect(), *c))
            .collect();
        words.sort();
        (words, overlap, lines_used)
        };
        let (words, overlap, lines_used) = build(false);
        out.label_if(overlap, "overlap_or_repeat");
        let mut budget = 4000usize;
        let mut info = ReplayInfo::default();
        if let Err(e) = replay(&words, &entries, 0, requested, &mut budget, &mut info) {
            let mut ok_lossy = false;
            if has_bad_line {
                let (words2, _, _) = build(true);
                let mut budget2 = 4000usize;
                let mut info2 = ReplayInfo::default();
                ok_lossy = replay(&words2, &entries, 0, requested, &mut budget2, &mut info2).is_ok();
            }
            if !ok_lossy {
                out.fail(format!("{e}{}; table {:?}", if has_bad_line { " (neither with the undecodable line skipped nor with it decoded lossily)" } else { "" }, entries.iter().map(|e| String::from_utf8_lossy(e).to_string()).collect::<Vec<_>>()));
                return out;
            }
        }
        out.label_if(mixed_line, "line_with_mixed_cluster");
        out.label_if(info.ties > 0, "tie");
        out.label_if(budget == 0, "replay_budget_exhausted");
        // well-formed + tokenizer consistency
        let t = Table { entries: entries.clone() };
        ensure!(out, t.is_well_formed(), "table is not well-formed (an entry is not the concatenation of two earlier tokens, or occurs twice)");
        let map = t.map();
        let mut depth = 0;
        for e in &entries {
            if (1..e.len()).any(|k| (e[..k].len() > 1 && map.contains_key(&e[..k])) || (e[k..].len() > 1 && map.contains_key(&e[k..]))) {
                depth += 1;
            }
        }
        out.label_if(depth >= 1, "depth>=2");
        out.nontrivial = overlap && (n < requested || depth >= 3);
        let tok = match BPETokenizer::new(
            BPETokenizerConfig { merge_file: out_file.clone(), max_vocab_size: None, use_graphemes: true },
            SpecialConfig::default(),
        ) {
            Ok(t) => t,
            Err(e) => {
                out.fail(format!("BPETokenizer::new on the trained table failed: {e}"));
                return out;
            }
        };
        ensure!(out, tok.vocab_size() == 256 + n + 4, "vocab_size {} != 256 + {n} + 4", tok.vocab_size());
        for (i, e) in entries.iter().enumerate() {
            let t = tok.id_to_token(256 + i as u32);
            ensure!(out, t.as_ref() == Some(e), "id_to_token({}) = {t:?}, table entry {i} is {e:?}", 256 + i);
        }
        for l in &lines_used {
            let ids = match tok.tokenize(l, true) {
                Ok(t) => t.token_ids,
                Err(e) => {
                    out.fail(format!("tokenize failed: {e}"));
                    return out;
                }
            };
            let d = tok.de_tokenize(&ids, true);
            ensure!(out, matches!(&d, Ok(d) if d == l), "trained tokenizer does not round-trip the corpus line {l:?}: {d:?}");
            // every corpus word is tokenized as training segmented it is not required by the
            // statement (ties); but ids must be valid
            ensure!(out, ids.iter().all(|id| (*id as usize) < 256 + n), "invalid id emitted");
        }
        out
    }
}
