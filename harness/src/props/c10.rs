//! C10 — whitespace operations and repair are inverse; repair only touches whitespace.
use crate::engine::*;
use crate::ensure;
use crate::gen;
use proptest::prelude::*;
use serde::{Deserialize, Serialize};
use text_utils::whitespace::{operations, repair, Operation};

#[derive(Debug, Clone, Serialize, Deserialize)]
pub enum Sub {
    /// two space placements of one character sequence
    Inverse { chars: Vec<String>, from: Vec<bool>, to: Vec<bool> },
    /// any string, any operation vector (0 keep, 1 insert, 2 delete); `delta` = length mismatch
    Repair { s: String, ops: Vec<u8>, delta: i8 },
    /// operations() on arbitrary pairs: must return, never panic
    Total { a: String, b: String },
}

#[derive(Debug, Clone, Serialize, Deserialize)]
pub struct Case {
    pub sub: Sub,
    pub graphemes: bool,
}

pub struct C10;

fn place(chars: &[String], gaps: &[bool]) -> String {
    let mut s = String::new();
    for (i, c) in chars.iter().enumerate() {
        if i > 0 && gaps[i] {
            s.push(' ');
        }
        s.push_str(c);
    }
    s
}

fn strip_ws(s: &str) -> String {
    s.chars().filter(|c| !c.is_whitespace()).collect()
}

fn op_of(o: u8) -> Operation {
    match o % 3 {
        0 => Operation::Keep,
        1 => Operation::Insert,
        _ => Operation::Delete,
    }
}

impl Prop for C10 {
    type Case = Case;
    const ID: &'static str = "C10";
    const FUZZ_TARGET: Option<&'static str> = Some("ws_ops");
    const FUZZ_RUNS: u64 = 4000000;
    fn fuzz_decode(bytes: &[u8]) -> Option<Case> {
        crate::fuzzdec::c10(bytes)
    }
    const RULE: &'static str = "(a) sequences of 0-12 non-whitespace characters (code-point mode: any non-whitespace code point incl. combining marks, joiners, regional indicators; grapheme mode: closed-pool clusters) with two independent placements of single spaces -> clean `from`/`to`; (b) arbitrary Unicode strings (unclean, all White_Space code points, CRLF, hazards) x arbitrary operation vectors of matching or mismatching length; (c) arbitrary pairs for totality. Oracle: operations() is Ok with one entry per character and repair(from, operations(from,to)) == to; repair preserves the sequence of non-whitespace code points; all-Keep is the identity; length mismatch is Err; nothing panics. Non-trivial: (a) the operations contain both an Insert and a Delete and the text has a multi-byte character; (b) ops contain Insert and Delete on a text with whitespace and a multi-byte character. Distinct = distinct serialised case.";
    const ESSENTIAL: &'static [&'static str] = &["inverse", "repair", "total", "insert+delete", "multibyte", "length_mismatch", "graphemes", "code_points"];

    fn budget(tier: Tier) -> Budget {
        match tier {
            Tier::Quick => Budget { cases: 80000, shards: 16 },
            Tier::Thorough => Budget { cases: 7680000, shards: 16 },
        }
    }

    fn strategy(_tier: Tier, _shard: u32) -> BoxedStrategy<Case> {
        any::<bool>()
            .prop_flat_map(|g| {
                let inverse = prop_oneof![160 => 0usize..=12, 10 => 13usize..=80, 1 => 250usize..=262, 1 => 300usize..=700].prop_flat_map(move |n| {
                    (
                        proptest::collection::vec(gen::nonws_unit(g), n),
                        proptest::collection::vec(any::<bool>(), n),
                        proptest::collection::vec(any::<bool>(), n),
                    )
                        .prop_map(|(chars, from, to)| Sub::Inverse { chars, from, to })
                });
                let text = if g { prop_oneof![3 => gen::stable_text(12), 2 => gen::text(8)].boxed() } else { gen::text(10).boxed() };
                let rep = (prop_oneof![15 => text, 1 => gen::text(80)], proptest::collection::vec(0u8..3, 0..=40), prop_oneof![8 => Just(0i8), 1 => Just(1i8), 1 => Just(-1i8)], any::<bool>())
                    .prop_map(move |(s, mut ops, delta, all_keep)| {
                        let n = gen::clusters(&s, g).len();
                        let want = (n as isize + delta as isize).max(0) as usize;
                        ops.resize(want, 0);
                        if all_keep {
                            ops.iter_mut().for_each(|o| *o = 0);
                        }
                        Sub::Repair { s, ops, delta }
                    });
                let total = (gen::text(6), gen::text(6)).prop_map(|(a, b)| Sub::Total { a, b });
                prop_oneof![5 => inverse, 5 => rep, 1 => total].prop_map(move |sub| Case { sub, graphemes: g })
            })
            .boxed()
    }

    fn assumptions() -> Vec<String> {
        vec![
            "grapheme mode: the inverse law is asserted on closed-pool clusters (segmentation-stable texts); KF2 is the recorded finding outside that domain".into(),
            "\"only whitespace changed\" is read at code-point level: removing all White_Space code points from input and output gives the same string".into(),
        ]
    }

    fn check(c: &Case, strict: bool) -> Outcome {
        let mut out = Outcome::new();
        let g = c.graphemes;
        out.label(if g { "graphemes" } else { "code_points" });
        match &c.sub {
            Sub::Inverse { chars, from, to } => {
                out.label("inverse");
                let f = place(chars, from);
                let t = place(chars, to);
                if g && !strict && !(gen::is_stable(&f) && gen::is_stable(&t) && gen::clusters(&strip_ws(&f), true).len() == chars.len()) {
                    out.discard = Some("unstable_in_grapheme_mode");
                    return out;
                }
                let n = gen::clusters(&f, g).len();
                let _ = operations(&f, &t, !g); // the same texts in the other unit first
                let ops = match operations(&f, &t, g) {
                    Ok(o) => o,
                    Err(e) => {
                        out.fail(format!("operations({f:?}, {t:?}, graphemes={g}) failed on clean whitespace variants: {}", e.to_string().lines().next().unwrap_or("")));
                        return out;
                    }
                };
                ensure!(out, ops.len() == n, "operations({f:?}, {t:?}) has {} entries for {n} characters", ops.len());
                let has_i = ops.contains(&Operation::Insert);
                let has_d = ops.contains(&Operation::Delete);
                out.label_if(has_i && has_d, "insert+delete");
                let mb = f.chars().any(|ch| ch.len_utf8() > 1);
                out.label_if(mb, "multibyte");
                out.nontrivial = has_i && has_d && mb;
                match repair(&f, &ops, g) {
                    Ok(r) => ensure!(out, r == t, "repair({f:?}, operations(from, to)) = {r:?}, expected {t:?} (graphemes={g})"),
                    Err(e) => {
                        out.fail(format!("repair failed: {e}"));
                        return out;
                    }
                }
                // and back
                match operations(&t, &f, g).and_then(|o| repair(&t, &o, g)) {
                    Ok(r) => ensure!(out, r == f, "repair(to, operations(to, from)) = {r:?}, expected {f:?}"),
                    Err(e) => {
                        out.fail(format!("reverse direction failed: {}", e.to_string().lines().next().unwrap_or("")));
                        return out;
                    }
                }
                // identity
                match operations(&f, &f, g) {
                    Ok(o) => ensure!(out, o.iter().all(|x| *x == Operation::Keep) && o.len() == n, "operations(s, s) is not all Keep"),
                    Err(e) => {
                        out.fail(format!("operations(s, s) failed: {e}"));
                        return out;
                    }
                }
            }
            Sub::Repair { s, ops, delta } => {
                out.label("repair");
                let n = gen::clusters(s, g).len();
                let ops: Vec<Operation> = ops.iter().map(|o| op_of(*o)).collect();
                if *delta != 0 && ops.len() != n {
                    out.label("length_mismatch");
                    let r = repair(s, &ops, g);
                    ensure!(out, r.is_err(), "repair accepted {} operations for {n} characters", ops.len());
                    return out;
                }
                if ops.len() != n {
                    // delta = -1 on the empty string
                    return out;
                }
                let _ = operations(s, s, !g);
                let r = match repair(s, &ops, g) {
                    Ok(r) => r,
                    Err(e) => {
                        out.fail(format!("repair failed on matching length: {e}"));
                        return out;
                    }
                };
                ensure!(out, strip_ws(&r) == strip_ws(s), "repair changed more than whitespace: {s:?} -> {r:?}");
                if ops.iter().all(|o| *o == Operation::Keep) {
                    ensure!(out, r == *s, "all-Keep repair is not the identity: {s:?} -> {r:?}");
                }
                let has_i = ops.contains(&Operation::Insert);
                let has_d = ops.contains(&Operation::Delete);
                let mb = s.chars().any(|ch| ch.len_utf8() > 1);
                out.label_if(mb, "multibyte");
                out.label_if(has_i && has_d, "insert+delete");
                out.nontrivial = has_i && has_d && mb && s.chars().any(char::is_whitespace) && r != *s;
            }
            Sub::Total { a, b } => {
                out.label("total");
                let _ = operations(a, b, g);
                let _ = operations(b, a, g);
            }
        }
        out
    }
}
