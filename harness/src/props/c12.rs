//! C12 — edit distance equals the reference metric; operations() is a minimal script.
use crate::engine::*;
use crate::ensure;
use crate::gen;
use crate::model::{self, is_ws};
use proptest::prelude::*;
use proptest::sample::select;
use serde::{Deserialize, Serialize};
use text_utils::edit::{self, EditOperation};

#[derive(Debug, Clone, Serialize, Deserialize)]
pub struct Case {
    pub a: String,
    pub b: String,
    pub graphemes: bool,
    pub swap: bool,
    pub ws_only: bool,
    /// third string for the triangle inequality
    pub c: String,
    /// a and b are repeated this many times (0 = once): long strings without long cases
    #[serde(default)]
    pub rep_a: usize,
    #[serde(default)]
    pub rep_b: usize,
}

pub struct C12;

pub const ALPHA_CP: &[&str] = &["a", "b", "c", " ", "a", "b", " ", "ä", "中", "\n", "\u{3000}"];
pub const ALPHA_G: &[&str] = &[
    "a", "b", "c", " ", "a", "b", " ", "ä", "中", "e\u{301}", "👩\u{200d}👩\u{200d}👧", "\r\n", "🇩🇪",
    "\u{301}", "\u{200d}",
];

fn toks(graphemes: bool, max: usize) -> BoxedStrategy<Vec<String>> {
    let alpha: &'static [&'static str] = if graphemes { ALPHA_G } else { ALPHA_CP };
    // one token in 300 is the giant cluster (261 bytes; one character in grapheme mode)
    proptest::collection::vec(prop_oneof![300 => select(alpha).prop_map(str::to_string), 1 => Just(crate::gen::GIANT.to_string())], 0..=max).boxed()
}

fn derive(a: &[String], edits: &[(u8, u16, String)]) -> Vec<String> {
    let mut v = a.to_vec();
    for (kind, pos, tok) in edits {
        match kind % 5 {
            0 => {
                let i = idx16(*pos, v.len() + 1);
                v.insert(i, tok.clone());
            }
            1 if !v.is_empty() => {
                let i = idx16(*pos, v.len());
                v.remove(i);
            }
            2 if !v.is_empty() => {
                let i = idx16(*pos, v.len());
                v[i] = tok.clone();
            }
            3 if v.len() >= 2 => {
                let i = idx16(*pos, v.len() - 1);
                v.swap(i, i + 1);
            }
            4 => {
                // move a space: delete one, insert one elsewhere
                if let Some(i) = v.iter().position(|t| t == " ") {
                    v.remove(i);
                }
                let i = idx16(*pos, v.len() + 1);
                v.insert(i, " ".to_string());
            }
            _ => {}
        }
    }
    v
}

fn edit2(alpha: &'static [&'static str]) -> impl Strategy<Value = (u8, u16, String)> + Clone {
    (any::<u8>(), any::<u16>(), select(alpha).prop_map(str::to_string))
}

fn pair(graphemes: bool) -> BoxedStrategy<(String, String, String)> {
    let alpha: &'static [&'static str] = if graphemes { ALPHA_G } else { ALPHA_CP };
    let edit = (any::<u8>(), any::<u16>(), select(alpha).prop_map(str::to_string));
    // lengths at and around 64, 128, 256 characters
    let boundary = (select(alpha), select(vec![63usize, 64, 65, 127, 128, 129, 255, 256, 257]), proptest::collection::vec(edit2(alpha), 0..=4), proptest::collection::vec(edit2(alpha), 0..=4))
        .prop_map(|(t, n, e1, e2)| {
            let base: Vec<String> = vec![t.to_string(); n];
            // substitutions and swaps keep the length of a exactly; b gets arbitrary edits
            let a = derive(&base, &e1.iter().map(|(k, p, w)| (2 + k % 2, *p, w.clone())).collect::<Vec<_>>());
            let b = derive(&a, &e2);
            (a.concat(), b.concat(), String::new())
        });
    let usual = prop_oneof![
        5 => (toks(graphemes, 8), toks(graphemes, 8), toks(graphemes, 6))
            .prop_map(|(a, b, c)| (a.concat(), b.concat(), c.concat())),
        4 => (toks(graphemes, 10), proptest::collection::vec(edit.clone(), 1..=3), proptest::collection::vec(edit, 0..=2))
            .prop_map(|(a, e, e2)| {
                let b = derive(&a, &e);
                let c = derive(&b, &e2);
                (a.concat(), b.concat(), c.concat())
            }),
        2 => (toks(graphemes, 40), toks(graphemes, 40), toks(graphemes, 10))
            .prop_map(|(a, b, c)| (a.concat(), b.concat(), c.concat())),
        1 => (toks(graphemes, 120), proptest::collection::vec((any::<u8>(), any::<u16>(), select(alpha).prop_map(str::to_string)), 1..=6))
            .prop_map(|(a, e)| {
                let b = derive(&a, &e);
                (a.concat(), b.concat(), String::new())
            }),
        1 => (gen::text(6), gen::text(6), gen::text(3)),
    ];
    prop_oneof![120 => usual, 1 => boundary].boxed()
}

fn apply_script(
    a: &[&str],
    b: &[&str],
    ops: &[(EditOperation, usize, usize)],
    ws_only: bool,
) -> Result<(), String> {
    let mut out: Vec<&str> = vec![];
    let mut pa = 0usize;
    let mut last = (0usize, 0usize);
    for (k, (op, i, j)) in ops.iter().enumerate() {
        let (i, j) = (*i, *j);
        if k > 0 && (i < last.0 || j < last.1) {
            return Err(format!("script not sorted at op {k}: {ops:?}"));
        }
        last = (i, j);
        if i < pa || i > a.len() {
            return Err(format!("op {k} {op:?} at a-index {i} but a is consumed up to {pa}"));
        }
        out.extend_from_slice(&a[pa..i]);
        pa = i;
        if out.len() != j {
            return Err(format!(
                "op {k} {op:?} claims b-index {j} but {} characters were produced so far",
                out.len()
            ));
        }
        match op {
            EditOperation::Insert => {
                if j >= b.len() {
                    return Err(format!("insert of b[{j}] out of range"));
                }
                out.push(b[j]);
            }
            EditOperation::Delete => {
                if i >= a.len() {
                    return Err(format!("delete of a[{i}] out of range"));
                }
                pa = i + 1;
            }
            EditOperation::Replace => {
                if i >= a.len() || j >= b.len() {
                    return Err("replace out of range".into());
                }
                if a[i] == b[j] {
                    return Err(format!("replace of equal characters at {i},{j}"));
                }
                if ws_only && (is_ws(a[i]) || is_ws(b[j])) {
                    return Err(format!("replace touches whitespace at {i},{j}"));
                }
                out.push(b[j]);
                pa = i + 1;
            }
            EditOperation::Swap => {
                if i + 1 >= a.len() {
                    return Err("swap out of range".into());
                }
                if ws_only && (is_ws(a[i]) || is_ws(a[i + 1])) {
                    return Err(format!("swap touches whitespace at {i}"));
                }
                out.push(a[i + 1]);
                out.push(a[i]);
                pa = i + 2;
            }
        }
    }
    out.extend_from_slice(&a[pa..]);
    if out != b {
        return Err(format!("applying the script to a gives {out:?}, not b = {b:?}"));
    }
    Ok(())
}

impl Prop for C12 {
    type Case = Case;
    const ID: &'static str = "C12";
    const FUZZ_TARGET: Option<&'static str> = Some("edit_diff");
    const FUZZ_RUNS: u64 = 1600000;
    fn fuzz_decode(bytes: &[u8]) -> Option<Case> {
        crate::fuzzdec::c12(bytes)
    }
    const RULE: &'static str = "pairs (plus a third string) over dense small alphabets incl. whitespace, multi-byte and multi-code-point clusters: independent, derived by 1-5 random edits/transpositions/space moves, long (<= 40, occasionally <= 120 with a derived partner), or arbitrary Unicode fragments; x use_graphemes x with_swap x spaces_insert_delete_only; every case checks distance, normalised distance, prefix distance, distances() and the operations() script against a suffix-recursive reference DP. Non-trivial: reference distance >= 2 and < max(len) (at least one character kept). Distinct = distinct serialised case.";
    const ESSENTIAL: &'static [&'static str] = &["swap_used", "ws_restricted_differs", "empty_side", "both_empty", "grapheme_multi_cp"];

    fn budget(tier: Tier) -> Budget {
        match tier {
            Tier::Quick => Budget { cases: 16000, shards: 16 },
            Tier::Thorough => Budget { cases: 400_000, shards: 16 },
        }
    }

    fn strategy(_tier: Tier, _shard: u32) -> BoxedStrategy<Case> {
        (any::<bool>(), any::<bool>(), any::<bool>())
            .prop_flat_map(|(g, s, w)| {
                // one pair in 15000: several hundred x a few thousand characters (more than 2^20 matrix
                // cells); a is then often a prefix of b (same unit)
                let long = (
                    proptest::collection::vec(select(if g { ALPHA_G } else { ALPHA_CP }), 1..=2),
                    proptest::collection::vec(select(if g { ALPHA_G } else { ALPHA_CP }), 1..=2),
                    any::<bool>(),
                    prop_oneof![(320usize..=420, 1300usize..=1600), (1300usize..=1600, 320usize..=420)],
                )
                    .prop_map(|(ua, ub, same, (rep_a, rep_b))| {
                        let a = ua.concat();
                        let b = if same { a.clone() } else { ub.concat() };
                        (a, b, String::new(), rep_a, rep_b)
                    });
                prop_oneof![
                    7500 => pair(g).prop_map(|(a, b, c)| (a, b, c, 0usize, 0usize)),
                    1 => long,
                ]
                .prop_map(move |(a, b, c, rep_a, rep_b)| Case { a, b, c, graphemes: g, swap: s, ws_only: w, rep_a, rep_b })
            })
            .boxed()
    }

    fn self_test() -> Result<(), String> {
        model::self_test_distance()
    }

    fn assumptions() -> Vec<String> {
        vec![
            "reference = memoised suffix recursion written from the definition (validated against BFS over edit sequences on all pairs of length <= 3 over {a,b} at start-up)".into(),
            "characters of the reference are the clusters reported by unicode-segmentation 1.x (grapheme mode) / code points".into(),
            "strings up to 120 characters, lengths at and around 64/128/256, and one pair in 7500 of several hundred x a few thousand characters (a short unit repeated); normalised prefix distance only checked for non-empty a".into(),
        ]
    }

    fn check(c: &Case, strict: bool) -> Outcome {
        let mut out = Outcome::new();
        let g = c.graphemes;
        let eff;
        let c = if c.rep_a > 1 || c.rep_b > 1 {
            eff = Case { a: c.a.repeat(c.rep_a.max(1)), b: c.b.repeat(c.rep_b.max(1)), rep_a: 0, rep_b: 0, ..c.clone() };
            &eff
        } else {
            c
        };
        let av = gen::clusters(&c.a, g);
        let bv = gen::clusters(&c.b, g);
        out.label_if((av.len() + 1) * (bv.len() + 1) > 1 << 20, "more_than_2^20_cells");
        for n in [av.len(), bv.len()] {
            out.label_if(matches!(n, 63..=65 | 127..=129 | 255..=257), "length_at_a_power_of_two");
        }
        let want = model::ref_distance(&av, &bv, c.swap, c.ws_only);
        let maxlen = av.len().max(bv.len());
        out.nontrivial = want >= 2 && want < maxlen;
        out.label_if(av.is_empty() != bv.is_empty(), "empty_side");
        out.label_if(av.is_empty() && bv.is_empty(), "both_empty");
        out.label_if(
            g && av.iter().chain(bv.iter()).any(|t| t.chars().count() > 1),
            "grapheme_multi_cp",
        );
        if c.ws_only {
            let free = model::ref_distance(&av, &bv, c.swap, false);
            out.label_if(free < want, "ws_restricted_differs");
        }
        if c.swap {
            let noswap = model::ref_distance(&av, &bv, false, c.ws_only);
            out.label_if(want < noswap, "swap_used");
        }

        // the same strings asked in the other unit first (and then in this one): an answer must not
        // depend on what was asked before
        let _ = edit::distance(&c.a, &c.b, !g, c.swap, c.ws_only, false);
        // --- distance
        let d = edit::distance(&c.a, &c.b, g, c.swap, c.ws_only, false);
        ensure!(out, d == want as f64, "distance({:?},{:?},g={g},swap={},ws={}) = {d}, reference {want}", c.a, c.b, c.swap, c.ws_only);
        // --- normalised
        let dn = edit::distance(&c.a, &c.b, g, c.swap, c.ws_only, true);
        let want_n = if maxlen == 0 { 0.0 } else { want as f64 / maxlen as f64 };
        ensure!(out, dn.is_finite() && dn >= 0.0, "normalised distance({:?},{:?}) = {dn} is not finite and non-negative", c.a, c.b);
        // KF5: with spaces_insert_delete_only the restricted distance can exceed the longer
        // length (" " -> "a" costs 2), so "divide by the longer length" leaves [0,1]. That class
        // is a recorded finding; it is excluded here by construction (and counted).
        if want > maxlen && !strict {
            out.label("kf5_class_excluded_from_range_check");
        } else {
            ensure!(out, dn <= 1.0, "normalised distance({:?},{:?},ws_only={}) = {dn} is outside [0,1]", c.a, c.b, c.ws_only);
        }
        ensure!(out, (dn - want_n).abs() < 1e-12, "normalised distance({:?},{:?}) = {dn}, reference {want_n}", c.a, c.b);
        // --- symmetry / identity
        let dba = edit::distance(&c.b, &c.a, g, c.swap, c.ws_only, false);
        ensure!(out, dba == d, "distance not symmetric: {d} vs {dba}");
        let daa = edit::distance(&c.a, &c.a, g, c.swap, c.ws_only, true);
        ensure!(out, daa == 0.0, "distance(a,a) normalised = {daa} for {:?}", c.a);
        // --- triangle inequality (Levenshtein, unrestricted)
        if !c.swap && !c.ws_only {
            let dac = edit::distance(&c.a, &c.c, g, false, false, false);
            let dbc = edit::distance(&c.b, &c.c, g, false, false, false);
            ensure!(out, dac <= d + dbc, "triangle inequality violated: d(a,c)={dac} > d(a,b)={d} + d(b,c)={dbc}");
        }
        // --- prefix distance (the reference costs |b| full DPs: long pairs use every 8th prefix as a bound only)
        let _ = edit::operations(&c.a, &c.b, !g, c.swap, c.ws_only);
        let pd = edit::prefix_distance(&c.a, &c.b, g, c.swap, c.ws_only, false);
        if bv.len() > 48 {
            // long pairs: one-pass reference (reversed strings), exact
            let want_p = model::ref_prefix_distance(&av, &bv, c.swap, c.ws_only);
            ensure!(out, pd == want_p as f64, "prefix_distance of a ({} characters) and b ({} characters) = {pd}, reference {want_p}", av.len(), bv.len());
            return finish_ops(c, &av, &bv, want, out);
        }
        let want_p = (0..=bv.len())
            .map(|k| model::ref_distance(&av, &bv[..k], c.swap, c.ws_only))
            .min()
            .unwrap();
        ensure!(out, pd == want_p as f64, "prefix_distance({:?},{:?}) = {pd}, reference {want_p}", c.a, c.b);
        let one_pass = model::ref_prefix_distance(&av, &bv, c.swap, c.ws_only);
        ensure!(out, one_pass == want_p, "harness: one-pass prefix reference {one_pass} != per-prefix reference {want_p} for {:?} {:?}", c.a, c.b);
        if !av.is_empty() {
            let pdn = edit::prefix_distance(&c.a, &c.b, g, c.swap, c.ws_only, true);
            let w = want_p as f64 / av.len() as f64;
            ensure!(out, (pdn - w).abs() < 1e-12, "normalised prefix_distance = {pdn}, reference {w}");
        }
        finish_ops(c, &av, &bv, want, out)
    }
}

fn finish_ops(c: &Case, av: &[&str], bv: &[&str], want: usize, mut out: Outcome) -> Outcome {
        let g = c.graphemes;
        // --- distances(): element-wise, Err on length mismatch
        match edit::distances(&[c.a.as_str(), c.b.as_str()], &[c.b.as_str(), c.c.as_str()], g, c.swap, c.ws_only, false) {
            Ok(v) => {
                let cv = gen::clusters(&c.c, g);
                let w1 = model::ref_distance(bv, &cv, c.swap, c.ws_only);
                ensure!(out, v.len() == 2 && v[0] == want as f64 && v[1] == w1 as f64, "distances() = {v:?}, reference [{want}, {w1}]");
            }
            Err(e) => {
                out.fail(format!("distances() failed on equal lengths: {e}"));
                return out;
            }
        }
        let mism = edit::distances(&[c.a.as_str()], &[c.b.as_str(), c.c.as_str()], g, c.swap, c.ws_only, false);
        ensure!(out, mism.is_err(), "distances() accepted lists of different length");
        // --- operations
        let _ = edit::prefix_distance(&c.a, &c.b, !g, c.swap, c.ws_only, false);
        let ops = edit::operations(&c.a, &c.b, g, c.swap, c.ws_only);
        ensure!(out, ops.len() == want, "operations() has {} steps, distance is {want}: {ops:?}", ops.len());
        if !c.swap {
            ensure!(out, !ops.iter().any(|o| o.0 == EditOperation::Swap), "swap in script although with_swap = false");
        }
        if let Err(e) = apply_script(av, bv, &ops, c.ws_only) {
            out.fail(format!("operations({:?},{:?},g={g},swap={},ws={}): {e}", c.a, c.b, c.swap, c.ws_only));
        }
        out
}
