//! C02 — BPE tokenization is lossless for every well-formed merge table.
use super::c03::max_vocab_strategy;
use super::common::*;
use crate::engine::*;
use crate::ensure;
use crate::gen;
use proptest::prelude::*;
use serde::{Deserialize, Serialize};
use text_utils::tokenization::{train_bpe, BPETokenizer, BPETokenizerConfig, Tokenize};
use text_utils::utils::SerializeMsgPack;

#[derive(Debug, Clone, Serialize, Deserialize)]
pub struct Case {
    pub table: Table,
    pub text: String,
    pub max_vocab: Option<usize>,
    pub graphemes: bool,
    pub special: SpecialCfg,
    /// when set: (corpus lines, requested merges) — the table is produced by train_bpe
    #[serde(default)]
    pub trained: Option<(Vec<String>, usize)>,
    /// see c03::Case::long_word
    #[serde(default)]
    pub long_word: usize,
}

pub struct C02;

impl Prop for C02 {
    type Case = Case;
    const ID: &'static str = "C02";
    const FUZZ_TARGET: Option<&'static str> = Some("bpe_roundtrip");
    const FUZZ_RUNS: u64 = 1200000;
    fn fuzz_decode(bytes: &[u8]) -> Option<Case> {
        crate::fuzzdec::c02(bytes)
    }
    const RULE: &'static str = "random well-formed merge tables (<= 48 merges, occasionally 160) and tables produced by train_bpe on generated corpora (1-40 merges requested) x texts mixing words over the table alphabet with arbitrary Unicode fragments, whitespace runs of all White_Space code points, leading/trailing whitespace x max_vocab_size x special configs with prefix/suffix x use_graphemes; oracle: decode(encode(s)) is a prefix of s whose remainder is whitespace only (equal if s has no trailing whitespace), ids < vocab_size, prefix/suffix ids frame the output, concatenated table byte strings are valid UTF-8 and equal the decoded text. Non-trivial: some emitted id >= 256 and (inner whitespace run >= 2 characters, trailing whitespace, or a multi-byte character split across tokens). Distinct = distinct serialised case.";
    const ESSENTIAL: &'static [&'static str] = &["merged_id", "trailing_ws", "multibyte_split", "prefix_suffix", "trained_table", "word_longer_than_65536_bytes"];

    fn budget(tier: Tier) -> Budget {
        match tier {
            Tier::Quick => Budget { cases: 6000, shards: 16 },
            Tier::Thorough => Budget { cases: 240000, shards: 16 },
        }
    }

    fn strategy(_tier: Tier, _shard: u32) -> BoxedStrategy<Case> {
        // tables produced by train_bpe on a generated corpus (rich enough not to be exhausted
        // for small requests, exhausted for large ones)
        let trained = (
            proptest::sample::select(ALPHABETS),
            proptest::collection::vec((any::<u16>(), 1usize..=6), 4..=40),
            1usize..=40,
            any::<bool>(),
            special_cfg(),
        )
            .prop_flat_map(|(alpha, picks, requested, graphemes, special)| {
                let letters: Vec<String> = alpha.iter().map(|s| s.to_string()).collect();
                let mut words: Vec<String> = vec![];
                for (i, (r, len)) in picks.iter().enumerate() {
                    let mut w = String::new();
                    for k in 0..*len {
                        let j = ((*r as usize) >> (k * 2)).wrapping_add(i * k) % letters.len();
                        w.push_str(&letters[j]);
                    }
                    words.push(w);
                }
                let lines: Vec<String> = words.chunks(4).map(|c| c.join(" ")).collect();
                let pieces: Vec<String> = letters.iter().cloned().chain(words.iter().cloned()).collect();
                let text = proptest::collection::vec(
                    prop_oneof![
                        6 => proptest::sample::select(pieces),
                        2 => gen::ws_run(1, 2),
                        2 => gen::frag(),
                    ],
                    0..=10,
                )
                .prop_map(|v| v.concat());
                text.prop_map(move |text| Case {
                    table: Table { entries: vec![] },
                    text,
                    max_vocab: None,
                    graphemes,
                    special: special.clone(),
                    trained: Some((lines.clone(), requested)),
                    long_word: 0,
                })
            });
        let random = (prop_oneof![12 => table_strategy(48), 1 => table_strategy(160)], special_cfg())
            .prop_flat_map(|((letters, table), special)| {
                let n = table.entries.len();
                let t1 = table_text(letters.clone(), table.clone(), 6);
                let t2 = (table_text(letters, table.clone(), 3), gen::text(6), gen::ws_run(0, 2))
                    .prop_map(|(a, b, w)| format!("{a}{b}{w}"));
                (
                    prop_oneof![6 => t1, 4 => t2, 2 => gen::text(10), 1 => gen::text(60)],
                    max_vocab_strategy(n),
                    any::<bool>(),
                    prop_oneof![400 => Just(0usize), 1 => 14000usize..=24000],
                )
                    .prop_map(move |(text, max_vocab, graphemes, long_word)| Case {
                        table: table.clone(),
                        text,
                        max_vocab,
                        graphemes,
                        special: special.clone(),
                        trained: None,
                        long_word,
                    })
            });
        prop_oneof![6 => random, 1 => trained].boxed()
    }

    fn assumptions() -> Vec<String> {
        vec![
            "special tokens are ignored on both sides (tokenize(.., true), de_tokenize(.., true)) as the statement says".into(),
            "expected special ids: 256 + #kept merges + index in the first-occurrence de-duplicated token list; #kept is read from vocab_size and validated (prefix of the table, everything without a limit, vocab_size <= max_vocab_size)".into(),
            "tables <= 48 merges, texts <= ~80 bytes".into(),
        ]
    }

    fn check(c: &Case, _strict: bool) -> Outcome {
        let mut out = Outcome::new();
        let trained_case;
        let c = if let Some((lines, requested)) = &c.trained {
            out.label("trained_table");
            let dir = work_dir();
            let corpus = dir.join("c02-corpus.txt");
            std::fs::write(&corpus, lines.join("\n") + "\n").expect("write corpus");
            let out_file = dir.join("c02-trained.merges");
            let r = train_bpe(&[&corpus], 320, 64 - (*requested).min(64), &out_file, None, None, 0, false);
            install_panic_hook();
            if let Err(e) = r {
                out.fail(format!("train_bpe failed: {e}"));
                return out;
            }
            let Ok(ops) = std::collections::HashMap::<Vec<u8>, u32>::load(&out_file) else {
                out.fail("trained table does not load");
                return out;
            };
            let mut entries: Vec<Option<Vec<u8>>> = vec![None; ops.len()];
            for (b, id) in &ops {
                if (*id as usize) < entries.len() {
                    entries[*id as usize] = Some(b.clone());
                }
            }
            if entries.iter().any(|e| e.is_none()) {
                // ids are not 0..n-1: that is C19's subject
                out.discard = Some("trained_table_ids_not_contiguous");
                return out;
            }
            trained_case = Case { table: Table { entries: entries.into_iter().flatten().collect() }, trained: None, ..c.clone() };
            if !trained_case.table.is_well_formed() {
                // an ill-formed trained table is C19's subject as well
                out.discard = Some("trained_table_not_well_formed");
                return out;
            }
            &trained_case
        } else {
            c
        };
        let long_case;
        let c = if c.long_word > 0 {
            out.label("long_word");
            long_case = Case { text: super::c03::with_long_word(&c.text, c.long_word), long_word: 0, ..c.clone() };
            out.label_if(long_case.text.len() > 65536, "word_longer_than_65536_bytes");
            &long_case
        } else {
            c
        };
        // long texts are abbreviated in messages
        let short = |t: &str| -> String {
            if t.len() <= 300 {
                format!("{t:?}")
            } else {
                let head: String = t.chars().take(120).collect();
                let tail: String = t.chars().rev().take(60).collect::<Vec<_>>().into_iter().rev().collect();
                format!("{head:?} … {tail:?} ({} bytes)", t.len())
            }
        };
        ensure!(out, c.table.is_well_formed(), "harness generated an ill-formed table");
        let path = c.table.save("c02.merges");
        let tok = match BPETokenizer::new(
            BPETokenizerConfig {
                merge_file: path,
                max_vocab_size: c.max_vocab,
                use_graphemes: c.graphemes,
            },
            c.special.to_config(),
        ) {
            Ok(t) => t,
            Err(e) => {
                out.fail(format!("BPETokenizer::new failed: {e}"));
                return out;
            }
        };
        let uniq0 = c.special.unique_tokens();
        let vocab_size = tok.vocab_size();
        let Some(kept) = vocab_size.checked_sub(256 + uniq0.len()) else {
            out.fail(format!("vocab_size {vocab_size} smaller than 256 + {} special tokens", uniq0.len()));
            return out;
        };
        ensure!(out, kept <= c.table.entries.len(), "{kept} merges in the vocabulary, the table has {}", c.table.entries.len());
        match c.max_vocab {
            None => ensure!(out, kept == c.table.entries.len(), "no max_vocab_size but only {kept} of {} merges are used", c.table.entries.len()),
            Some(l) => ensure!(out, kept == 0 || vocab_size <= l, "vocab_size {vocab_size} exceeds max_vocab_size {l}"),
        }
        let uniq = c.special.unique_tokens();
        let special_id = |t: &String| -> u32 {
            (256 + kept + uniq.iter().position(|u| u == t).unwrap()) as u32
        };
        let ids = match tok.tokenize(&c.text, true) {
            Ok(t) => t.token_ids,
            Err(e) => {
                out.fail(format!("tokenize failed: {e}"));
                return out;
            }
        };
        // the same tokenizer object used again: another text in between must not change the answer
        {
            let other: String = c.text.chars().rev().take(24).collect();
            let _ = tok.tokenize(&other, true);
            let _ = tok.tokenize("", true);
            match tok.tokenize(&c.text, true) {
                Ok(t) => ensure!(out, t.token_ids == ids, "the same tokenizer gives a different answer for the same text after tokenizing another text in between"),
                Err(e) => {
                    out.fail(format!("second tokenize of the same text failed: {e}"));
                    return out;
                }
            }
        }
        let pre: Vec<u32> = c.special.prefix.iter().map(special_id).collect();
        let suf: Vec<u32> = c.special.suffix.iter().map(special_id).collect();
        out.label_if(!pre.is_empty() || !suf.is_empty(), "prefix_suffix");
        ensure!(out, ids.len() >= pre.len() + suf.len() && ids[..pre.len()] == pre[..] && ids[ids.len() - suf.len()..] == suf[..],
            "prefix/suffix ids do not frame the output: ids {ids:?}, prefix {pre:?}, suffix {suf:?}");
        let body = &ids[pre.len()..ids.len() - suf.len()];
        for id in &ids {
            ensure!(out, (*id as usize) < vocab_size, "emitted id {id} >= vocab_size {vocab_size}");
        }
        // bytes from the *table*
        let mut bytes: Vec<u8> = vec![];
        let mut starts: Vec<usize> = vec![];
        for id in body {
            starts.push(bytes.len());
            if *id < 256 {
                bytes.push(*id as u8);
            } else {
                let k = (*id - 256) as usize;
                ensure!(out, k < kept, "body contains id {id} which is not a kept merge (kept {kept})");
                bytes.extend(&c.table.entries[k]);
                out.label("merged_id");
            }
        }
        let concat = match String::from_utf8(bytes) {
            Ok(s) => s,
            Err(e) => {
                out.fail(format!("concatenated token bytes are not UTF-8: {e}"));
                return out;
            }
        };
        if starts.iter().any(|s| !concat.is_char_boundary(*s)) {
            out.label("multibyte_split");
        }
        let d = match tok.de_tokenize(&ids, true) {
            Ok(d) => d,
            Err(e) => {
                out.fail(format!("de_tokenize failed: {e}"));
                return out;
            }
        };
        ensure!(out, d == concat, "de_tokenize gives {} but the table byte strings concatenate to {}", short(&d), short(&concat));
        ensure!(out, c.text.starts_with(&d), "decoded text {} is not a prefix of the input {}", short(&d), short(&c.text));
        let rest = &c.text[d.len()..];
        ensure!(out, rest.chars().all(char::is_whitespace), "input and decoded text differ by more than trailing whitespace: rest {}", short(rest));
        let trailing = c.text.chars().last().is_some_and(char::is_whitespace);
        out.label_if(trailing, "trailing_ws");
        if !trailing {
            ensure!(out, d == c.text, "no trailing whitespace but decode(encode(s)) = {} != {}", short(&d), short(&c.text));
        } else {
            // exactly the trailing whitespace run may be missing, nothing more
            let trimmed = c.text.trim_end();
            ensure!(out, d.len() >= trimmed.len(), "more than trailing whitespace lost");
        }
        let mut run = 0;
        let mut inner_run = false;
        let mut seen_non_ws = false;
        for ch in c.text.trim_end().chars() {
            if ch.is_whitespace() {
                run += 1;
                if run >= 2 && seen_non_ws {
                    inner_run = true;
                }
            } else {
                run = 0;
                seen_non_ws = true;
            }
        }
        out.nontrivial = out.labels.contains(&"merged_id")
            && (inner_run || trailing || out.labels.contains(&"multibyte_split"));
        out
    }
}
