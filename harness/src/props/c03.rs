//! C03 — BPE tokenization applies the learned merges canonically (lowest id, leftmost).
use super::common::*;
use crate::engine::*;
use crate::ensure;
use crate::model;
use proptest::prelude::*;
use serde::{Deserialize, Serialize};
use text_utils::tokenization::{
    train_bpe, BPETokenizer, BPETokenizerConfig, MergeOps, SpecialConfig, Tokenize,
};
use text_utils::utils::SerializeMsgPack;

#[derive(Debug, Clone, Serialize, Deserialize)]
pub struct Case {
    pub table: Table,
    pub text: String,
    pub max_vocab: Option<usize>,
    pub graphemes: bool,
    /// if set, the table is not `table` but the result of train_bpe on these lines with this many
    /// requested merges (<= 64)
    #[serde(default)]
    pub trained: Option<(Vec<String>, usize)>,
    /// the text is followed (even values) or preceded (odd values) by one more word: the first word
    /// of `text` repeated this many times without a separator (0 = nothing added) - a single word
    /// of tens of kilobytes
    #[serde(default)]
    pub long_word: usize,
}

pub fn with_long_word(text: &str, long_word: usize) -> String {
    if long_word == 0 {
        return text.to_string();
    }
    let unit = text.split_whitespace().next().unwrap_or("ab");
    if long_word % 2 == 1 {
        // the long word first: it has no whitespace prefix, its byte 0 is a letter
        format!("{} {text}", unit.repeat(long_word))
    } else {
        format!("{text} {}", unit.repeat(long_word))
    }
}

pub struct C03;

pub fn max_vocab_strategy(n_hint: usize) -> BoxedStrategy<Option<usize>> {
    prop_oneof![
        7 => Just(None),
        1 => Just(Some(0usize)),
        1 => Just(Some(255usize)),
        3 => (0..=n_hint + 2).prop_map(|k| Some(260 + k)),
    ]
    .boxed()
}

impl Prop for C03 {
    type Case = Case;
    const ID: &'static str = "C03";
    const FUZZ_TARGET: Option<&'static str> = Some("bpe_diff");
    const FUZZ_RUNS: u64 = 400000;
    fn fuzz_decode(bytes: &[u8]) -> Option<Case> {
        crate::fuzzdec::c03(bytes)
    }
    const RULE: &'static str = "random well-formed merge tables and tables produced by train_bpe on generated corpora (<= 32 / <= 40 merges over 1-4 letter alphabets incl. multi-byte letters, chains, whitespace-prefixed tokens, competing entries) x texts whose words are concatenations of table tokens and letters separated by whitespace runs x max_vocab_size truncation; the token ids are compared with a naive reference BPE (rescan all adjacent pairs, lowest merge id, leftmost, repeat) per whitespace-prefixed word. Non-trivial: in some word the reference performs >= 2 merges, one of them with an already merged operand (depth >= 2). Distinct = distinct serialised case.";
    const ESSENTIAL: &'static [&'static str] = &["depth>=2", "two_merges_in_word", "tie_same_id", "truncated", "trained_table", "word_longer_than_65536_bytes"];

    fn budget(tier: Tier) -> Budget {
        match tier {
            Tier::Quick => Budget { cases: 4500, shards: 16 },
            Tier::Thorough => Budget { cases: 40_000, shards: 16 },
        }
    }

    fn strategy(_tier: Tier, _shard: u32) -> BoxedStrategy<Case> {
        let trained = (
            proptest::sample::select(ALPHABETS),
            proptest::collection::vec((any::<u16>(), 1usize..=6), 4..=40),
            1usize..=40,
            any::<bool>(),
        )
            .prop_flat_map(|(alpha, picks, requested, graphemes)| {
                let letters: Vec<String> = alpha.iter().map(|s| s.to_string()).collect();
                // corpus words: runs of letters chosen by the picks
                let mut words: Vec<String> = vec![];
                for (i, (r, len)) in picks.iter().enumerate() {
                    let mut w = String::new();
                    for k in 0..*len {
                        let j = ((*r as usize) >> (k * 2)).wrapping_add(i * k) % letters.len();
                        w.push_str(&letters[j]);
                    }
                    words.push(w);
                }
                let lines: Vec<String> = words.chunks(4).map(|c| c.join(" ")).collect();
                let pieces: Vec<String> = letters.iter().cloned().chain(words.iter().cloned()).collect();
                let text = proptest::collection::vec(
                    (proptest::collection::vec(proptest::sample::select(pieces), 1..=3).prop_map(|v| v.concat()), prop_oneof![4 => Just(" ".to_string()), 1 => crate::gen::ws_run(1, 2)]),
                    0..=5,
                )
                .prop_map(|ws| ws.into_iter().map(|(w, s)| format!("{w}{s}")).collect::<String>());
                text.prop_map(move |text| Case {
                    table: Table { entries: vec![] },
                    text,
                    max_vocab: None,
                    graphemes,
                    trained: Some((lines.clone(), requested)),
                    long_word: 0,
                })
            });
        let random = prop_oneof![12 => table_strategy(32), 1 => table_strategy(128)]
            .prop_flat_map(|(letters, table)| {
                let n = table.entries.len();
                (
                    table_text(letters, table.clone(), 5),
                    max_vocab_strategy(n),
                    any::<bool>(),
                    // one case in 400: a word of more than 2^16 bytes
                    prop_oneof![400 => Just(0usize), 1 => 14000usize..=24000],
                )
                    .prop_map(move |(text, max_vocab, graphemes, long_word)| Case {
                        table: table.clone(),
                        text,
                        max_vocab,
                        graphemes,
                        trained: None,
                        long_word,
                    })
            });
        prop_oneof![5 => random, 1 => trained].boxed()
    }

    fn self_test() -> Result<(), String> {
        model::self_test_bpe()
    }

    fn assumptions() -> Vec<String> {
        vec![
            "reference BPE is quadratic rescanning written from the statement; word split is an independent scanner for `\\s+\\S+|^\\S+`".into(),
            "max_vocab_size keeps merges with id < max_vocab_size - #special tokens - 256 (as documented in the constructor)".into(),
            "tables <= 32 merges, tokens <= 12 bytes, texts <= 5 words".into(),
        ]
    }

    fn check(c: &Case, _strict: bool) -> Outcome {
        let mut out = Outcome::new();
        let trained_table;
        let c = if let Some((lines, requested)) = &c.trained {
            out.label("trained_table");
            let dir = work_dir();
            let corpus = dir.join("c03-corpus.txt");
            std::fs::write(&corpus, lines.join("\n") + "\n").expect("write corpus");
            let out_file = dir.join("c03-trained.merges");
            let r = train_bpe(&[&corpus], 320, 64 - (*requested).min(64), &out_file, None, None, 0, false);
            install_panic_hook();
            if let Err(e) = r {
                out.fail(format!("train_bpe failed: {e}"));
                return out;
            }
            let Ok(ops) = MergeOps::load(&out_file) else {
                out.fail("trained table does not load");
                return out;
            };
            let mut entries: Vec<Option<Vec<u8>>> = vec![None; ops.len()];
            for (b, id) in &ops {
                if (*id as usize) < entries.len() {
                    entries[*id as usize] = Some(b.clone());
                }
            }
            if entries.iter().any(|e| e.is_none()) {
                // ids are not 0..n-1: that is C19's subject, nothing to compare here
                out.discard = Some("trained_table_ids_not_contiguous");
                return out;
            }
            trained_table = Case { table: Table { entries: entries.into_iter().flatten().collect() }, trained: None, ..c.clone() };
            &trained_table
        } else {
            c
        };
        ensure!(out, c.table.is_well_formed(), "merge table is not well-formed");
        let path = c.table.save("c03.merges");
        let special = SpecialConfig::default();
        let nspecial = special.tokens.len();
        let tok = match BPETokenizer::new(
            BPETokenizerConfig {
                merge_file: path,
                max_vocab_size: c.max_vocab,
                use_graphemes: c.graphemes,
            },
            special,
        ) {
            Ok(t) => t,
            Err(e) => {
                out.fail(format!("BPETokenizer::new failed: {e}"));
                return out;
            }
        };
        // how many merges a max_vocab_size keeps is read from the tokenizer (the statement only
        // requires a limit): a prefix of the table, all of it without a limit, within the limit
        let vs = tok.vocab_size();
        let Some(kept) = vs.checked_sub(256 + nspecial) else {
            out.fail(format!("vocab_size {vs} smaller than 256 + {nspecial} special tokens"));
            return out;
        };
        ensure!(out, kept <= c.table.entries.len(), "{kept} merges in the vocabulary, the table has {}", c.table.entries.len());
        match c.max_vocab {
            None => ensure!(out, kept == c.table.entries.len(), "no max_vocab_size but only {kept} of {} merges are used", c.table.entries.len()),
            Some(l) => ensure!(out, kept == 0 || vs <= l, "vocab_size {vs} exceeds max_vocab_size {l}"),
        }
        out.label_if(kept < c.table.entries.len(), "truncated");
        let map = c.table.truncated(kept).map();
        let text = with_long_word(&c.text, c.long_word);
        let got = match tok.tokenize(&text, true) {
            Ok(t) => t.token_ids,
            Err(e) => {
                out.fail(format!("tokenize failed: {e}"));
                return out;
            }
        };
        // the same tokenizer object used again: another text in between must not change the answer
        {
            let other: String = text.chars().rev().take(24).collect();
            let _ = tok.tokenize(&other, true);
            let _ = tok.tokenize("", true);
            match tok.tokenize(&text, true) {
                Ok(t) => ensure!(out, t.token_ids == got, "the same tokenizer gives a different answer for the same text after tokenizing another text in between"),
                Err(e) => {
                    out.fail(format!("second tokenize of the same text failed: {e}"));
                    return out;
                }
            }
        }
        let mut want: Vec<u32> = vec![];
        for w in model::split_ws_words(&text) {
            if w.len() > 400 {
                // long words: the linked-list reference (validated against the rescanning one at start-up)
                out.label_if(w.len() > 65536, "word_longer_than_65536_bytes");
                want.extend(model::fast_bpe_word(w.as_bytes(), &map));
                continue;
            }
            let (ids, tr) = model::naive_bpe_word(w.as_bytes(), &map);
            out.label_if(tr.depth2, "depth>=2");
            out.label_if(tr.merges >= 2, "two_merges_in_word");
            out.label_if(tr.tie_same_id, "tie_same_id");
            if tr.merges >= 2 && tr.depth2 {
                out.nontrivial = true;
            }
            want.extend(ids);
        }
        if c.long_word > 0 && got != want {
            let k = got.iter().zip(&want).position(|(a, b)| a != b).unwrap_or(got.len().min(want.len()));
            out.fail(format!(
                "tokenize(text + one word of {} bytes) has {} ids, canonical merge order gives {}; first difference at token {k}: {:?} vs {:?} (table {:?}, kept {kept})",
                text.len().saturating_sub(c.text.len() + 1), got.len(), want.len(), got.get(k), want.get(k),
                c.table.entries.iter().map(|e| String::from_utf8_lossy(e).to_string()).collect::<Vec<_>>()
            ));
            return out;
        }
        ensure!(
            out,
            got == want,
            "tokenize({:?}) = {:?}, canonical merge order gives {:?} (table {:?}, kept {kept})",
            c.text,
            got,
            want,
            c.table.entries.iter().map(|e| String::from_utf8_lossy(e).to_string()).collect::<Vec<_>>()
        );
        out
    }
}
