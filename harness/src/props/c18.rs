//! C18 — word matching is a longest common subsequence; edited words are its complement.
use crate::engine::*;
use crate::model;
use proptest::prelude::*;
use proptest::sample::select;
use serde::{Deserialize, Serialize};
use std::collections::HashSet;
use text_utils::edit::edited_words;
use text_utils::text::match_words;

#[derive(Debug, Clone, Serialize, Deserialize)]
pub struct Case {
    pub a: Vec<String>,
    pub b: Vec<String>,
    pub sep_a: Vec<String>,
    pub sep_b: Vec<String>,
    pub ignore_case: bool,
    /// text a starts with this many distinct words w0 w1 w2 ... (0 = none): more distinct words
    /// than any small integer type can number, against a short text b
    #[serde(default)]
    pub many: usize,
}

pub struct C18;

pub const WORDS: &[&str] = &[
    "a", "b", "A", "ab", "Ab", "c", "a", "b", "İ", "ß", "SS", "Σ", "σ", "ς", "é", "É", "the", "The",
    // case pairs whose lower-case form has another UTF-8 length: Kelvin sign / k, capital sharp s / ß,
    // Angstrom sign / å, I with dot above / i + combining dot
    "\u{212a}", "k", "\u{1e9e}", "\u{212b}", "å", "i\u{307}", "5\u{212a}", "5k",
];
pub const SEPS: &[&str] = &[" ", " ", "  ", "\t", "\n", " \r\n"];
/// White_Space code points that are not ASCII whitespace (two readings of "word"; see check)
pub const SEPS_WIDE: &[&str] = &["\u{b}", "\u{a0}", "\u{3000}", "\u{85}", " \u{2028}", "\u{2003} "];

fn join(w: &[String], seps: &[String], lead: bool) -> String {
    let mut s = String::new();
    if lead {
        s.push(' ');
    }
    for (i, x) in w.iter().enumerate() {
        if i > 0 {
            s.push_str(&seps[i % seps.len()]);
        }
        s.push_str(x);
    }
    if lead {
        s.push('\n');
    }
    s
}

impl Prop for C18 {
    type Case = Case;
    const ID: &'static str = "C18";
    const FUZZ_TARGET: Option<&'static str> = Some("lcs_match");
    const FUZZ_RUNS: u64 = 4000000;
    fn fuzz_decode(bytes: &[u8]) -> Option<Case> {
        crate::fuzzdec::c18(bytes)
    }
    const RULE: &'static str = "two sequences of 0-8 words over a small vocabulary with repeats, case variants and non-ASCII words with special case mappings (incl. pairs whose lower-case form has another byte length), joined by runs of ASCII whitespace (leading/trailing runs included), one separator in thirteen a White_Space code point that is not ASCII whitespace (VT, NBSP, U+3000, NEL, U+2028, em space) x ignore_case. Oracle: index pairs strictly increasing in both coordinates, matched words equal (under to_lowercase when requested), their number equals the textbook LCS length, reported lengths are the word counts, edited_words are the complements of the matched index sets. Non-trivial: LCS length strictly between 0 and min(len) with a repeated word. Distinct = distinct serialised case.";
    const ESSENTIAL: &'static [&'static str] = &["ignore_case", "case_sensitive", "empty_side", "repeated_word", "partial_match", "non_ascii_whitespace", "more_than_65536_distinct_words"];

    fn budget(tier: Tier) -> Budget {
        match tier {
            Tier::Quick => Budget { cases: 150000, shards: 16 },
            Tier::Thorough => Budget { cases: 12000000, shards: 16 },
        }
    }

    fn strategy(_tier: Tier, _shard: u32) -> BoxedStrategy<Case> {
        let words = || prop_oneof![
            16 => proptest::collection::vec(select(WORDS).prop_map(str::to_string), 0..=8),
            1 => proptest::collection::vec(select(WORDS).prop_map(str::to_string), 9..=40),
        ];
        let derived = (words(), proptest::collection::vec((any::<u8>(), any::<u16>(), select(WORDS).prop_map(str::to_string)), 0..=3)).prop_map(|(a, ed)| {
            let mut b = a.clone();
            for (k, pos, w) in ed {
                match k % 3 {
                    0 if !b.is_empty() => {
                        b.remove(idx16(pos, b.len()));
                    }
                    1 => b.insert(idx16(pos, b.len() + 1), w),
                    2 if !b.is_empty() => {
                        let i = idx16(pos, b.len());
                        b[i] = w;
                    }
                    _ => {}
                }
            }
            (a, b)
        });
        let seps = || proptest::collection::vec(prop_oneof![12 => select(SEPS).prop_map(str::to_string), 1 => select(SEPS_WIDE).prop_map(str::to_string)], 1..=3);
        let usual = (prop_oneof![(words(), words()), derived], seps(), seps(), any::<bool>())
            .prop_map(|((a, b), sep_a, sep_b, ignore_case)| Case { a, b, sep_a, sep_b, ignore_case, many: 0 });
        // one case in 20000: about 2^16 distinct words against at most three
        let many = (
            prop_oneof![65530usize..=65545, Just(70000usize), Just(256usize), Just(257usize)],
            proptest::collection::vec(select(vec!["w0", "w1", "w255", "w256", "w65535", "w65536", "w65537", "unseen", "W3", "a"]).prop_map(str::to_string), 0..=3),
            proptest::collection::vec(select(vec!["w0", "unseen", "a"]).prop_map(str::to_string), 0..=2),
            any::<bool>(),
        )
            .prop_map(|(many, b, a, ignore_case)| Case { a, b, sep_a: vec![" ".to_string()], sep_b: vec![" ".to_string()], ignore_case, many });
        prop_oneof![20000 => usual, 1 => many].boxed()
    }

    fn assumptions() -> Vec<String> {
        vec![
            "words are separated by ASCII whitespace in most cases, where every reading of `whitespace-separated` agrees; for texts that also contain other White_Space code points the answer must be right under one reading (ASCII whitespace or Unicode White_Space) applied to both texts".into(),
            "case-insensitive equality is str::to_lowercase equality".into(),
        ]
    }

    fn check(c: &Case, _strict: bool) -> Outcome {
        let mut out = Outcome::new();
        let a_all: Vec<String> = (0..c.many).map(|i| format!("w{i}")).chain(c.a.iter().cloned()).collect();
        out.label_if(c.many > 65536, "more_than_65536_distinct_words");
        let ta = join(&a_all, &c.sep_a, c.sep_a.len() == 3);
        let tb = join(&c.b, &c.sep_b, c.sep_b.len() == 2);
        out.label(if c.ignore_case { "ignore_case" } else { "case_sensitive" });
        out.label_if(a_all.is_empty() != c.b.is_empty(), "empty_side");
        let key = |w: &String| if c.ignore_case { w.to_lowercase() } else { w.clone() };
        // "whitespace-separated words" has two readings once a text contains White_Space code
        // points that are not ASCII whitespace (vertical tab, NBSP, U+3000, ...): the answer has to
        // be right under ONE reading applied to BOTH texts. With ASCII separators only (the bulk of
        // the cases) the readings coincide.
        let ascii = |t: &str| -> Vec<String> { t.split_ascii_whitespace().map(str::to_string).collect() };
        let unicode = |t: &str| -> Vec<String> { t.split_whitespace().map(str::to_string).collect() };
        let (aa, ab) = (ascii(&ta), ascii(&tb));
        let (ua, ub) = (unicode(&ta), unicode(&tb));
        let two_readings = aa != ua || ab != ub;
        out.label_if(two_readings, "non_ascii_whitespace");
        {
            let ka: Vec<String> = aa.iter().map(key).collect();
            let kb: Vec<String> = ab.iter().map(key).collect();
            let lcs = model::lcs_len(&ka, &kb);
            let repeated = ka.iter().collect::<HashSet<_>>().len() < ka.len() || kb.iter().collect::<HashSet<_>>().len() < kb.len();
            out.label_if(repeated, "repeated_word");
            let partial = lcs > 0 && lcs < ka.len().min(kb.len());
            out.label_if(partial, "partial_match");
            out.nontrivial = partial && repeated;
        }
        let (m, la, lb) = match_words(&ta, &tb, c.ignore_case);
        let (m2, _, _) = match_words(&ta, &tb, false);
        let (ea, eb) = edited_words(&ta, &tb);
        let verify = |wa: &[String], wb: &[String]| -> Result<(), String> {
            let ka: Vec<String> = wa.iter().map(key).collect();
            let kb: Vec<String> = wb.iter().map(key).collect();
            let lcs = model::lcs_len(&ka, &kb);
            if la != wa.len() || lb != wb.len() {
                return Err(format!("reported lengths ({la},{lb}) != word counts ({},{})", wa.len(), wb.len()));
            }
            for w in m.windows(2) {
                if !(w[0].0 < w[1].0 && w[0].1 < w[1].1) {
                    return Err(format!("matching not strictly increasing: {m:?}"));
                }
            }
            for (i, j) in &m {
                if !(*i < ka.len() && *j < kb.len()) {
                    return Err(format!("match index out of range: {m:?}"));
                }
                if ka[*i] != kb[*j] {
                    return Err(format!("matched words differ: {:?} vs {:?}", wa[*i], wb[*j]));
                }
            }
            if m.len() != lcs {
                return Err(format!("{} matches, a longest common subsequence has {lcs}: a = {wa:?}, b = {wb:?}, matches {m:?}", m.len()));
            }
            // edited_words: complement of the case-sensitive matching
            let want_a: HashSet<usize> = (0..wa.len()).filter(|i| !m2.iter().any(|p| p.0 == *i)).collect();
            let want_b: HashSet<usize> = (0..wb.len()).filter(|j| !m2.iter().any(|p| p.1 == *j)).collect();
            if ea != want_a || eb != want_b {
                return Err(format!("edited_words = ({ea:?}, {eb:?}), complement of the matching is ({want_a:?}, {want_b:?})"));
            }
            let lcs_cs = model::lcs_len(wa, wb);
            if ea.len() != wa.len() - lcs_cs || eb.len() != wb.len() - lcs_cs {
                return Err(format!("edited_words sizes ({},{}) do not match the LCS length {lcs_cs}", ea.len(), eb.len()));
            }
            Ok(())
        };
        if let Err(e1) = verify(&aa, &ab) {
            if !two_readings {
                out.fail(e1);
            } else if let Err(e2) = verify(&ua, &ub) {
                out.fail(format!("wrong under both readings of `whitespace` for texts {ta:?} / {tb:?}: ASCII whitespace: {e1}; Unicode White_Space: {e2}"));
            }
        }
        out
    }
}
