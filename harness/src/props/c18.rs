//! C18 — word matching is a longest common subsequence; edited words are its complement.
use crate::engine::*;
use crate::ensure;
use crate::model;
use proptest::prelude::*;
use proptest::sample::select;
use serde::{Deserialize, Serialize};
use std::collections::HashSet;
use text_utils::edit::edited_words;
use text_utils::text::match_words;

#[derive(Debug, Clone, Serialize, Deserialize)]
pub struct Case {
    pub a: Vec<String>,
    pub b: Vec<String>,
    pub sep_a: Vec<String>,
    pub sep_b: Vec<String>,
    pub ignore_case: bool,
}

pub struct C18;

pub const WORDS: &[&str] = &["a", "b", "A", "ab", "Ab", "c", "a", "b", "İ", "ß", "SS", "Σ", "σ", "ς", "é", "É", "the", "The"];
pub const SEPS: &[&str] = &[" ", " ", "  ", "\t", "\n", " \r\n"];

fn join(w: &[String], seps: &[String], lead: bool) -> String {
    let mut s = String::new();
    if lead {
        s.push(' ');
    }
    for (i, x) in w.iter().enumerate() {
        if i > 0 {
            s.push_str(&seps[i % seps.len()]);
        }
        s.push_str(x);
    }
    if lead {
        s.push('\n');
    }
    s
}

impl Prop for C18 {
    type Case = Case;
    const ID: &'static str = "C18";
    const FUZZ_TARGET: Option<&'static str> = Some("lcs_match");
    const FUZZ_RUNS: u64 = 4000000;
    fn fuzz_decode(bytes: &[u8]) -> Option<Case> {
        crate::fuzzdec::c18(bytes)
    }
    const RULE: &'static str = "two sequences of 0-8 words over a small vocabulary with repeats, case variants and non-ASCII words with special case mappings, joined by runs of ASCII whitespace (leading/trailing runs included) x ignore_case. Oracle: index pairs strictly increasing in both coordinates, matched words equal (under to_lowercase when requested), their number equals the textbook LCS length, reported lengths are the word counts, edited_words are the complements of the matched index sets. Non-trivial: LCS length strictly between 0 and min(len) with a repeated word. Distinct = distinct serialised case.";
    const ESSENTIAL: &'static [&'static str] = &["ignore_case", "case_sensitive", "empty_side", "repeated_word", "partial_match"];

    fn budget(tier: Tier) -> Budget {
        match tier {
            Tier::Quick => Budget { cases: 150000, shards: 16 },
            Tier::Thorough => Budget { cases: 12000000, shards: 16 },
        }
    }

    fn strategy(_tier: Tier, _shard: u32) -> BoxedStrategy<Case> {
        let words = || prop_oneof![
            16 => proptest::collection::vec(select(WORDS).prop_map(str::to_string), 0..=8),
            1 => proptest::collection::vec(select(WORDS).prop_map(str::to_string), 9..=40),
        ];
        let derived = (words(), proptest::collection::vec((any::<u8>(), any::<u16>(), select(WORDS).prop_map(str::to_string)), 0..=3)).prop_map(|(a, ed)| {
            let mut b = a.clone();
            for (k, pos, w) in ed {
                match k % 3 {
                    0 if !b.is_empty() => {
                        b.remove(idx16(pos, b.len()));
                    }
                    1 => b.insert(idx16(pos, b.len() + 1), w),
                    2 if !b.is_empty() => {
                        let i = idx16(pos, b.len());
                        b[i] = w;
                    }
                    _ => {}
                }
            }
            (a, b)
        });
        let seps = || proptest::collection::vec(select(SEPS).prop_map(str::to_string), 1..=3);
        (prop_oneof![(words(), words()), derived], seps(), seps(), any::<bool>())
            .prop_map(|((a, b), sep_a, sep_b, ignore_case)| Case { a, b, sep_a, sep_b, ignore_case })
            .boxed()
    }

    fn assumptions() -> Vec<String> {
        vec![
            "words are separated by ASCII whitespace (the quantifier is over word sequences; the metrics pass cleaned text)".into(),
            "case-insensitive equality is str::to_lowercase equality".into(),
        ]
    }

    fn check(c: &Case, _strict: bool) -> Outcome {
        let mut out = Outcome::new();
        let ta = join(&c.a, &c.sep_a, c.sep_a.len() == 3);
        let tb = join(&c.b, &c.sep_b, c.sep_b.len() == 2);
        out.label(if c.ignore_case { "ignore_case" } else { "case_sensitive" });
        out.label_if(c.a.is_empty() != c.b.is_empty(), "empty_side");
        let key = |w: &String| if c.ignore_case { w.to_lowercase() } else { w.clone() };
        let ka: Vec<String> = c.a.iter().map(key).collect();
        let kb: Vec<String> = c.b.iter().map(key).collect();
        let lcs = model::lcs_len(&ka, &kb);
        let repeated = ka.iter().collect::<HashSet<_>>().len() < ka.len() || kb.iter().collect::<HashSet<_>>().len() < kb.len();
        out.label_if(repeated, "repeated_word");
        let partial = lcs > 0 && lcs < ka.len().min(kb.len());
        out.label_if(partial, "partial_match");
        out.nontrivial = partial && repeated;
        let (m, la, lb) = match_words(&ta, &tb, c.ignore_case);
        ensure!(out, la == c.a.len() && lb == c.b.len(), "reported lengths ({la},{lb}) != word counts ({},{})", c.a.len(), c.b.len());
        for w in m.windows(2) {
            ensure!(out, w[0].0 < w[1].0 && w[0].1 < w[1].1, "matching not strictly increasing: {m:?}");
        }
        for (i, j) in &m {
            ensure!(out, *i < ka.len() && *j < kb.len(), "match index out of range: {m:?}");
            ensure!(out, ka[*i] == kb[*j], "matched words differ: {:?} vs {:?}", c.a[*i], c.b[*j]);
        }
        ensure!(out, m.len() == lcs, "{} matches, a longest common subsequence has {lcs}: a = {:?}, b = {:?}, matches {m:?}", m.len(), c.a, c.b);
        // edited_words: complement of the case-sensitive matching
        let (m2, _, _) = match_words(&ta, &tb, false);
        let (ea, eb) = edited_words(&ta, &tb);
        let want_a: HashSet<usize> = (0..c.a.len()).filter(|i| !m2.iter().any(|p| p.0 == *i)).collect();
        let want_b: HashSet<usize> = (0..c.b.len()).filter(|j| !m2.iter().any(|p| p.1 == *j)).collect();
        ensure!(out, ea == want_a && eb == want_b, "edited_words = ({ea:?}, {eb:?}), complement of the matching is ({want_a:?}, {want_b:?})");
        let lcs_cs = model::lcs_len(&c.a, &c.b);
        ensure!(out, ea.len() == c.a.len() - lcs_cs && eb.len() == c.b.len() - lcs_cs, "edited_words sizes ({},{}) do not match the LCS length {lcs_cs}", ea.len(), eb.len());
        out
    }
}
