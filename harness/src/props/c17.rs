//! C17 — token groups partition the token sequence; tensorisation is faithful.
use super::c04::{byte_kind, expect, Kind};
use super::c14::by_kind_cfg;
use super::common::*;
use crate::engine::*;
use crate::ensure;
use crate::gen;
use proptest::prelude::*;
use proptest::sample::select;
use serde::{Deserialize, Serialize};
use std::collections::{HashMap, HashSet};
use text_utils::data::loading::Tensorize;
use text_utils::data::task::{train_task, TrainTaskConfig};
use text_utils::data::verif::tensor_view;
use text_utils::data::{TrainData, TrainItem, TrainTaskInput};
use text_utils::tokenization::{
    padding_mask, token_groups_to_sparse_coo_matrix, tokenizer, GroupAggregation, Grouping,
    TokenGroup, TokenizationInfo,
};
use text_utils::verif::{padding_mask_rows, sparse_coo_parts};

#[derive(Debug, Clone, Serialize, Deserialize)]
pub struct Case {
    pub items: Vec<(String, u8)>,
    pub kind: Kind,
    pub special: SpecialCfg,
    pub ignore_special: bool,
    /// 0 whitespace correction, 1 generation, 2 conditional generation, 3 classification
    pub task: u8,
    pub mask_input: bool,
    pub separator: Option<String>,
    /// conditional generation: the target side uses a tokenizer of its own whose special tokens
    /// are listed in reverse order (so its numeric pad id differs from the input side's)
    #[serde(default)]
    pub target_reversed: bool,
    /// the first item's text gets one more character: "e" followed by this many combining acute
    /// accents - a single grapheme cluster of 2n + 1 bytes (0 = nothing added)
    #[serde(default)]
    pub big_cluster: usize,
    /// the sparse matrix is built from a batch that mixes groupings of two tokenizers, one with sum
    /// and one with mean aggregation (items with an odd second component use the other one)
    #[serde(default)]
    pub mixed_agg: bool,
}

pub struct C17;

const CLASSES: &[&str] = &["x", "y", "zz"];

impl Prop for C17 {
    type Case = Case;
    const ID: &'static str = "C17";
    const FUZZ_TARGET: Option<&'static str> = Some("groups_tensor");
    const FUZZ_RUNS: u64 = 400000;
    fn fuzz_decode(bytes: &[u8]) -> Option<Case> {
        crate::fuzzdec::c17(bytes)
    }
    const RULE: &'static str = "batches of 1-6 Unicode texts (fragment pools incl. special-token spellings, multi-code-point clusters, empty strings) x byte tokenizer configs (byte/code-point groups, graphemes, pad_to_multiple_of, mean/sum) x special configs with prefix/suffix x ignore_special_tokens x train task (whitespace correction, generation with/without input masking and separator, conditional generation with the same or a differently configured target tokenizer (special tokens in reverse order, hence another pad id), classification). Oracle: exact expected group structure per tokenization and sum of group lengths = #ids; sparse COO matrix: one entry per token, indices inside the declared size, each (batch, token) once, token->group assignment equals the grouping, per-group weights sum to 1 (mean) / are all 1 (sum), padding mask; tensorised id/label matrices = item values followed only by padding, true lengths, width = max length. Non-trivial: batch of >= 2 items of different lengths with a prefix or suffix and a multi-code-point cluster. Distinct = distinct serialised case.";
    const ESSENTIAL: &'static [&'static str] = &["bytes_groups", "code_point_groups", "mean", "sum", "special_in_text", "prefix_suffix", "multi_cp_cluster", "empty_text", "task_ws", "task_gen", "task_cond", "task_cls", "different_lengths", "target_tokenizer_differs", "cluster_of_65536_bytes_or_more", "mixed_aggregation_batch"];

    fn budget(tier: Tier) -> Budget {
        match tier {
            Tier::Quick => Budget { cases: 4500, shards: 16 },
            Tier::Thorough => Budget { cases: 180000, shards: 16 },
        }
    }

    fn strategy(_tier: Tier, _shard: u32) -> BoxedStrategy<Case> {
        special_cfg()
            .prop_flat_map(|special| {
                let look = special_lookalikes(&special);
                let text = prop_oneof![5 => gen::text_with(look, 6), 1 => Just(String::new()), 2 => gen::clean_text(false, 4, 4)];
                (
                    prop_oneof![12 => proptest::collection::vec((text.clone(), any::<u8>()), 1..=6), 1 => proptest::collection::vec((text, any::<u8>()), 7..=20)],
                    byte_kind(),
                    any::<bool>(),
                    0u8..4,
                    any::<bool>(),
                    prop_oneof![Just(None), select(vec![" => ", "\n", "<sep>", ""]).prop_map(|s| Some(s.to_string()))],
                    any::<bool>(),
                )
                    .prop_map(move |(items, kind, ignore_special, task, mask_input, separator, target_reversed)| Case {
                        items,
                        kind,
                        special: special.clone(),
                        ignore_special,
                        task,
                        mask_input,
                        separator,
                        target_reversed,
                        big_cluster: 0,
                        mixed_agg: false,
                    })
            })
            .prop_flat_map(|c| {
                // one case in 1500: a grapheme cluster of about 2^16 bytes / 2^15 code points (and
                // one around 2^16 code points) in the first item
                prop_oneof![
                    1500 => Just(c.clone()),
                    1 => select(vec![32767usize, 32768, 32769, 65535, 65536, 65537, 127, 128]).prop_map(move |n| Case { big_cluster: n, ..c.clone() }),
                ]
            })
            .prop_flat_map(|c| prop_oneof![3 => Just(c.clone()), 1 => Just(Case { mixed_agg: true, ..c })])
            .boxed()
    }

    fn assumptions() -> Vec<String> {
        vec![
            "special-token sets are prefix-free (as in C01); expected groups come from the independent scanner".into(),
            "weights are compared with tolerance 1e-5 (f32)".into(),
            "only groupings produced by the byte tokenizer are used (it never produces Empty groups)".into(),
        ]
    }

    fn check(c: &Case, _strict: bool) -> Outcome {
        let mut out = Outcome::new();
        let big;
        let c = if c.big_cluster > 0 {
            let mut items = c.items.clone();
            if items.is_empty() {
                items.push((String::new(), 0));
            }
            items[0].0 = format!("{}e{}", items[0].0, "\u{301}".repeat(c.big_cluster));
            out.label_if(2 * c.big_cluster + 1 >= 65536, "cluster_of_65536_bytes_or_more");
            big = Case { items, big_cluster: 0, ..c.clone() };
            &big
        } else {
            c
        };
        let Kind::Byte { graphemes, code_point_groups, sum, .. } = &c.kind else {
            out.fail("harness: not a byte kind");
            return out;
        };
        let cfg = by_kind_cfg(&c.kind, &c.special);
        let tok = match tokenizer(cfg.clone()) {
            Ok(t) => t,
            Err(e) => {
                out.fail(format!("tokenizer construction failed: {e}"));
                return out;
            }
        };
        let ex = match tok.get_vocab().map_err(|e| e.to_string()).and_then(|v| expect(&c.kind, &c.special, &v)) {
            Ok(e) => e,
            Err(e) => {
                out.fail(e);
                return out;
            }
        };
        out.label(if *code_point_groups { "code_point_groups" } else { "bytes_groups" });
        out.label(if *sum { "sum" } else { "mean" });
        let np = c.special.prefix.len();
        let ns = c.special.suffix.len();
        out.label_if(np + ns > 0, "prefix_suffix");
        let agg = if *sum { GroupAggregation::Sum } else { GroupAggregation::Mean };
        let key = if *code_point_groups { "code_point_groups" } else { "byte_groups" };

        // the other tokenizer of a mixed batch: same configuration, the other aggregation
        let other_kind = match &c.kind {
            Kind::Byte { graphemes, code_point_groups, pad_to, sum } => Kind::Byte { graphemes: *graphemes, code_point_groups: *code_point_groups, pad_to: *pad_to, sum: !*sum },
            k => k.clone(),
        };
        let tok_other = match tokenizer(by_kind_cfg(&other_kind, &c.special)) {
            Ok(t) => t,
            Err(e) => {
                out.fail(format!("tokenizer construction failed: {e}"));
                return out;
            }
        };
        out.label_if(c.mixed_agg, "mixed_aggregation_batch");
        let mut item_sum: Vec<bool> = vec![];

        // ---- (A) groups of every tokenization
        let mut groupings: Vec<Grouping> = vec![];
        let mut lengths: Vec<usize> = vec![];
        let mut multi_cp = false;
        for (text, r) in &c.items {
            out.label_if(text.is_empty(), "empty_text");
            let use_other = c.mixed_agg && r % 2 == 1;
            let agg = if use_other { if *sum { GroupAggregation::Mean } else { GroupAggregation::Sum } } else { agg };
            item_sum.push(agg == GroupAggregation::Sum);
            let t = match (if use_other { &tok_other } else { &tok }).tokenize(text, c.ignore_special) {
                Ok(t) => t,
                Err(e) => {
                    out.fail(format!("tokenize failed: {e}"));
                    return out;
                }
            };
            let units = if c.ignore_special {
                if text.is_empty() { vec![] } else { vec![Ok(text.as_str())] }
            } else {
                scan_specials(text, &ex.special)
            };
            let mut want: Vec<TokenGroup> = vec![TokenGroup::Full(1); np];
            for u in &units {
                match u {
                    Err(_) => {
                        out.label("special_in_text");
                        want.push(TokenGroup::Full(1));
                    }
                    Ok(t) => {
                        for cl in gen::clusters(t, *graphemes) {
                            if cl.chars().count() > 1 {
                                multi_cp = true;
                            }
                            if *code_point_groups {
                                want.push(TokenGroup::Nested(cl.chars().map(|ch| TokenGroup::Full(ch.len_utf8())).collect()));
                            } else {
                                want.push(TokenGroup::Full(cl.len()));
                            }
                        }
                    }
                }
            }
            want.extend(vec![TokenGroup::Full(1); ns]);
            let TokenizationInfo::TokenGroups(map) = &t.info else {
                out.fail(format!("byte tokenizer returned info {:?}", t.info));
                return out;
            };
            ensure!(out, map.len() == 1 && map.contains_key(key), "expected exactly the group key {key:?}, got {:?}", map.keys().collect::<Vec<_>>());
            let (groups, gagg) = &map[key];
            ensure!(out, *gagg == agg, "aggregation {gagg:?} != configured {agg:?}");
            let total: usize = groups.iter().map(|g| g.len()).sum();
            ensure!(out, total == t.token_ids.len(), "group lengths sum to {total}, there are {} token ids (text {text:?})", t.token_ids.len());
            ensure!(out, *groups == want, "groups of {text:?}: {groups:?}, expected {want:?}");
            groupings.push((groups.clone(), *gagg));
            lengths.push(t.token_ids.len());
        }
        out.label_if(multi_cp, "multi_cp_cluster");
        let different = lengths.iter().any(|l| *l != lengths[0]);
        out.label_if(different, "different_lengths");
        out.nontrivial = c.items.len() >= 2 && different && np + ns > 0 && multi_cp;

        // ---- (B) sparse matrix
        let refs: Vec<&Grouping> = groupings.iter().collect();
        let m = match token_groups_to_sparse_coo_matrix(&refs, &lengths) {
            Ok(m) => m,
            Err(e) => {
                out.fail(format!("token_groups_to_sparse_coo_matrix failed: {e}"));
                return out;
            }
        };
        let (idx, shape, values, size, group_lengths) = sparse_coo_parts(&m);
        let stride: usize = lengths.iter().sum();
        ensure!(out, shape == (3, stride) && values.len() == stride && idx.len() == 3 * stride, "matrix has shape {shape:?} / {} values for {stride} tokens", values.len());
        let want_gl: Vec<usize> = groupings.iter().map(|g| g.0.len()).collect();
        ensure!(out, group_lengths == want_gl, "group_lengths {group_lengths:?} != {want_gl:?}");
        let want_size = vec![groupings.len(), want_gl.iter().copied().max().unwrap_or(0), lengths.iter().copied().max().unwrap_or(0)];
        ensure!(out, size == want_size, "size {size:?} != {want_size:?}");
        // expected token -> group assignment
        let mut want_entries: HashMap<(usize, usize), usize> = HashMap::new();
        for (b, (groups, _)) in groupings.iter().enumerate() {
            let mut t = 0;
            for (gi, g) in groups.iter().enumerate() {
                for _ in 0..g.len() {
                    want_entries.insert((b, t), gi);
                    t += 1;
                }
            }
        }
        let mut seen: HashSet<(usize, usize)> = HashSet::new();
        let mut sums: HashMap<(usize, usize), f64> = HashMap::new();
        for k in 0..stride {
            let (b, gi, t) = (idx[k], idx[stride + k], idx[2 * stride + k]);
            ensure!(out, b >= 0 && gi >= 0 && t >= 0, "negative index in entry {k}");
            let (b, gi, t) = (b as usize, gi as usize, t as usize);
            ensure!(out, b < size[0] && gi < group_lengths[b] && gi < size[1] && t < lengths[b] && t < size[2], "entry {k} = ({b},{gi},{t}) outside the declared size {size:?} / group_lengths {group_lengths:?} / lengths {lengths:?}");
            ensure!(out, seen.insert((b, t)), "token ({b},{t}) has two entries");
            ensure!(out, want_entries.get(&(b, t)) == Some(&gi), "token ({b},{t}) assigned to group {gi}, grouping says {:?}", want_entries.get(&(b, t)));
            *sums.entry((b, gi)).or_insert(0.0) += values[k] as f64;
            if item_sum[b] {
                ensure!(out, values[k] == 1.0, "sum aggregation with weight {}", values[k]);
            } else {
                ensure!(out, values[k] > 0.0 && values[k] <= 1.0, "mean aggregation with weight {}", values[k]);
            }
        }
        ensure!(out, seen.len() == stride, "not every token has an entry");
        {
            for ((b, gi), s) in &sums {
                if item_sum[*b] {
                    continue;
                }
                ensure!(out, (s - 1.0).abs() < 1e-5, "weights of group ({b},{gi}) sum to {s}");
            }
        }
        let mask = padding_mask_rows(&padding_mask(&group_lengths));
        let width = want_size[1];
        for (b, row) in mask.iter().enumerate() {
            ensure!(out, row.len() == width && row.iter().enumerate().all(|(i, v)| *v == (i < group_lengths[b])), "padding mask row {b} wrong: {row:?}");
        }

        // ---- (C) tensorisation of a batch of train items
        let mut special_t = c.special.clone();
        if c.target_reversed && c.task == 2 {
            special_t.tokens.reverse();
            out.label("target_tokenizer_differs");
        }
        let cfg_t = by_kind_cfg(&c.kind, &special_t);
        let pad_t = match tokenizer(cfg_t.clone()).and_then(|t| t.get_vocab()).map_err(|e| e.to_string()).and_then(|v| expect(&c.kind, &special_t, &v)) {
            Ok(e) => (256 + e.special.iter().position(|t| *t == special_t.pad).unwrap()) as u32,
            Err(e) => {
                out.fail(format!("target tokenizer: {e}"));
                return out;
            }
        };
        let task_cfg = match c.task {
            0 => TrainTaskConfig::WhitespaceCorrection(*graphemes, cfg.clone()),
            1 => TrainTaskConfig::Generation(c.mask_input, cfg.clone(), c.ignore_special, c.separator.clone()),
            2 => TrainTaskConfig::ConditionalGeneration(cfg.clone(), c.ignore_special, cfg_t.clone(), !c.ignore_special),
            _ => TrainTaskConfig::Classification(cfg.clone(), c.ignore_special, CLASSES.iter().map(|s| s.to_string()).collect()),
        };
        out.label(match c.task {
            0 => "task_ws",
            1 => "task_gen",
            2 => "task_cond",
            _ => "task_cls",
        });
        let task = train_task(task_cfg);
        let mut batch: Vec<TrainItem> = vec![];
        for (text, r) in &c.items {
            let (input, target) = match c.task {
                0 => {
                    let i = text_utils::text::clean(text, *graphemes);
                    if *graphemes && !gen::is_stable(&i) {
                        continue;
                    }
                    let t = if r % 2 == 0 { i.replace(' ', "") } else { i.clone() };
                    (i, t)
                }
                3 => (text.clone(), CLASSES[*r as usize % CLASSES.len()].to_string()),
                _ => (text.clone(), text.chars().rev().collect::<String>()),
            };
            let data = TrainData::new(input, Some(target));
            match task(&data) {
                Ok(inp) => batch.push(TrainItem::new(data, inp)),
                Err(e) => {
                    out.fail(format!("task failed on {data:?}: {}", e.to_string().lines().next().unwrap_or("")));
                    return out;
                }
            }
        }
        if batch.is_empty() {
            return out;
        }
        let tv = tensor_view(&batch.tensorize());
        let pad = (256 + ex.special.iter().position(|t| *t == c.special.pad).unwrap()) as u32;
        let chk_u32 = |name: &str, rows: &Vec<Vec<u32>>, lens: &Vec<usize>, items: Vec<&Vec<u32>>, pad: u32| -> Result<(), String> {
            let w = items.iter().map(|v| v.len()).max().unwrap_or(0);
            if rows.len() != items.len() || lens.len() != items.len() {
                return Err(format!("{name}: {} rows / {} lengths for {} items", rows.len(), lens.len(), items.len()));
            }
            for (r, it) in items.iter().enumerate() {
                if rows[r].len() != w || rows[r][..it.len()] != it[..] || rows[r][it.len()..].iter().any(|v| *v != pad) || lens[r] != it.len() {
                    return Err(format!("{name}: row {r} = {:?} (length {}) for item values {it:?}, pad {pad}, width {w}", rows[r], lens[r]));
                }
            }
            Ok(())
        };
        let chk_i32 = |name: &str, rows: &Vec<Vec<i32>>, items: Vec<&Vec<i32>>| -> Result<(), String> {
            let w = items.iter().map(|v| v.len()).max().unwrap_or(0);
            if rows.len() != items.len() {
                return Err(format!("{name}: {} rows for {} items", rows.len(), items.len()));
            }
            for (r, it) in items.iter().enumerate() {
                if rows[r].len() != w || rows[r][..it.len()] != it[..] || rows[r][it.len()..].iter().any(|v| *v != -1) {
                    return Err(format!("{name}: row {r} = {:?} for item values {it:?}, width {w}", rows[r]));
                }
            }
            Ok(())
        };
        let mut ids = vec![];
        let mut labels = vec![];
        let mut tids = vec![];
        let mut label1 = vec![];
        for it in &batch {
            match &it.input {
                TrainTaskInput::Classification { token_ids, pad_token_id, label } => {
                    ensure!(out, *pad_token_id == pad, "pad id");
                    ids.push(token_ids);
                    label1.push(*label);
                }
                TrainTaskInput::SequenceClassification { token_ids, pad_token_id, labels: l } | TrainTaskInput::Generation { token_ids, pad_token_id, labels: l } => {
                    ensure!(out, *pad_token_id == pad, "pad id");
                    ids.push(token_ids);
                    labels.push(l);
                }
                TrainTaskInput::ConditionalGeneration { token_ids, pad_token_id, target_token_ids, target_pad_token_id, labels: l } => {
                    ensure!(out, *pad_token_id == pad && *target_pad_token_id == pad_t, "pad ids ({pad_token_id}, {target_pad_token_id}) != ({pad}, {pad_t})");
                    ids.push(token_ids);
                    tids.push(target_token_ids);
                    labels.push(l);
                }
            }
        }
        if let Err(e) = chk_u32("token_ids", &tv.token_ids, &tv.lengths, ids, pad) {
            out.fail(e);
            return out;
        }
        match c.task {
            3 => ensure!(out, tv.label == label1, "classification labels {:?} != {label1:?}", tv.label),
            2 => {
                if let Err(e) = chk_u32("target_token_ids", &tv.target_token_ids, &tv.target_lengths, tids, pad_t).and_then(|_| chk_i32("labels", &tv.labels, labels)) {
                    out.fail(e);
                    return out;
                }
            }
            _ => {
                if let Err(e) = chk_i32("labels", &tv.labels, labels) {
                    out.fail(e);
                    return out;
                }
            }
        }
        out
    }
}
