//! Shared pieces for the tokenizer properties (C01-C04, C17, C19): special-token configs,
//! merge tables, scratch files.
#![allow(dead_code)]
use crate::engine::idx16;
use proptest::prelude::*;
use proptest::sample::select;
use serde::{Deserialize, Serialize};
use std::collections::HashMap;
use std::path::PathBuf;
use text_utils::tokenization::{SpecialConfig, SPECIAL_TOKENS};
use text_utils::utils::SerializeMsgPack;

pub fn work_dir() -> PathBuf {
    let p = std::env::var("TUV_WORK")
        .map(PathBuf::from)
        .unwrap_or_else(|_| crate::engine::verif_root().join("work").join(format!("adhoc-{}", std::process::id())));
    let _ = std::fs::create_dir_all(&p);
    p
}

// ---------------------------------------------------------------------------------------
// special-token configurations (DESIGN §3.3): prefix-free token sets, every token >= 2 bytes

pub const EXTRA_SPECIALS: &[&str] = &[
    "<w>", "[SEP]", "<|x|>", "<a.*>", "(+)", "«fin»", "<mask>", "##", "<sep>", "$^", "§",
];

#[derive(Debug, Clone, Serialize, Deserialize, PartialEq)]
pub struct SpecialCfg {
    pub pad: String,
    pub tokens: Vec<String>,
    pub prefix: Vec<String>,
    pub suffix: Vec<String>,
}

impl SpecialCfg {
    pub fn to_config(&self) -> SpecialConfig {
        SpecialConfig {
            pad: self.pad.clone(),
            tokens: self.tokens.clone(),
            prefix: self.prefix.clone(),
            suffix: self.suffix.clone(),
        }
    }

    /// tokens de-duplicated, first occurrence kept (the order in which ids are assigned)
    pub fn unique_tokens(&self) -> Vec<String> {
        let mut v: Vec<String> = vec![];
        for t in &self.tokens {
            if !v.contains(t) {
                v.push(t.clone());
            }
        }
        v
    }

    pub fn has_duplicates(&self) -> bool {
        self.unique_tokens().len() != self.tokens.len()
    }
}

pub fn special_cfg() -> BoxedStrategy<SpecialCfg> {
    (
        proptest::collection::vec(select(EXTRA_SPECIALS), 0..=3),
        proptest::collection::vec(any::<u16>(), 0..=2), // duplicates to append
        any::<u16>(),                                   // pad choice
        proptest::collection::vec(any::<u16>(), 0..=3), // prefix
        proptest::collection::vec(any::<u16>(), 0..=3), // suffix
        any::<bool>(),                                  // defaults first or last
    )
        .prop_map(|(extra, dups, pad, pre, suf, defaults_first)| {
            let mut tokens: Vec<String> = vec![];
            let defaults: Vec<String> = SPECIAL_TOKENS.iter().map(|s| s.to_string()).collect();
            if defaults_first {
                tokens.extend(defaults.clone());
            }
            for e in extra {
                if !tokens.contains(&e.to_string()) {
                    tokens.push(e.to_string());
                }
            }
            if !defaults_first {
                tokens.extend(defaults);
            }
            for d in dups {
                let t = tokens[idx16(d, tokens.len())].clone();
                tokens.push(t);
            }
            let pick = |i: u16| tokens[idx16(i, tokens.len())].clone();
            SpecialCfg {
                pad: pick(pad),
                prefix: pre.into_iter().map(pick).collect(),
                suffix: suf.into_iter().map(pick).collect(),
                tokens,
            }
        })
        .boxed()
}

/// spellings and look-alikes of the case's special tokens, for text pools
pub fn special_lookalikes(cfg: &SpecialCfg) -> Vec<String> {
    let mut v = vec![];
    for t in cfg.unique_tokens() {
        v.push(t.clone());
        v.push(format!("{t}{t}"));
        let cs: Vec<char> = t.chars().collect();
        if cs.len() >= 2 {
            v.push(cs[..cs.len() - 1].iter().collect()); // "<pad"
            v.push(cs[1..].iter().collect()); // "pad>"
            let mid = cs.len() / 2;
            let (l, r) = cs.split_at(mid);
            v.push(format!(
                "{}{}{}",
                l.iter().collect::<String>(),
                t,
                r.iter().collect::<String>()
            )); // "<pa<pad>d>"
        }
        v.push(format!("<{t}>"));
        v.push(t.to_uppercase());
        v.push(format!("ä{t}中"));
        v.push(format!("e\u{301}{t}\u{301}"));
    }
    v.push("<extra_token_0>".into());
    v.push("<extra_token_".into());
    v
}

/// Independent leftmost scanner for a prefix-free token set: returns the units of `s`:
/// Err(token) for a special-token occurrence, Ok(slice) for maximal text in between.
pub fn scan_specials<'a>(s: &'a str, tokens: &[String]) -> Vec<Result<&'a str, String>> {
    let mut units = vec![];
    let mut i = 0;
    let mut text_start = 0;
    while i < s.len() {
        if !s.is_char_boundary(i) {
            i += 1;
            continue;
        }
        if let Some(t) = tokens.iter().find(|t| !t.is_empty() && s[i..].starts_with(t.as_str())) {
            if i > text_start {
                units.push(Ok(&s[text_start..i]));
            }
            units.push(Err(t.clone()));
            i += t.len();
            text_start = i;
        } else {
            i += 1;
        }
    }
    if text_start < s.len() {
        units.push(Ok(&s[text_start..]));
    }
    units
}

// ---------------------------------------------------------------------------------------
// merge tables (DESIGN §3.4)

#[derive(Debug, Clone, Serialize, Deserialize, PartialEq)]
pub struct Table {
    /// entry i has merge id i; every entry is the concatenation of two earlier tokens
    pub entries: Vec<Vec<u8>>,
}

impl Table {
    pub fn map(&self) -> HashMap<Vec<u8>, u32> {
        self.entries
            .iter()
            .enumerate()
            .map(|(i, e)| (e.clone(), i as u32))
            .collect()
    }

    pub fn truncated(&self, n: usize) -> Table {
        Table {
            entries: self.entries[..n.min(self.entries.len())].to_vec(),
        }
    }

    pub fn save(&self, name: &str) -> PathBuf {
        let p = work_dir().join(name);
        self.map().save(&p).expect("save merge table");
        p
    }

    pub fn is_well_formed(&self) -> bool {
        let mut toks: std::collections::HashSet<Vec<u8>> = (0..=255u8).map(|b| vec![b]).collect();
        for e in &self.entries {
            if toks.contains(e) {
                return false;
            }
            let ok = (1..e.len()).any(|k| toks.contains(&e[..k]) && toks.contains(&e[k..]));
            if !ok {
                return false;
            }
            toks.insert(e.clone());
        }
        true
    }
}

pub const ALPHABETS: &[&[&str]] = &[
    &["a", "b"],
    &["a", "b", "c"],
    &["a", "b", "c", "d"],
    &["a", "ä"],
    &["a", "b", "中"],
    &["x", "é", "😀"],
    &["a"],
];

/// (alphabet letters, table). Choice pairs pick the two operands among the base tokens
/// (bytes of the letters, the space byte) and the entries created so far, with a bias to
/// recently created entries so that chains appear.
pub fn table_strategy(max_merges: usize) -> BoxedStrategy<(Vec<String>, Table)> {
    (
        select(ALPHABETS),
        proptest::collection::vec((any::<u16>(), any::<u16>(), 0u8..8), 0..=max_merges),
    )
        .prop_map(|(alpha, picks)| {
            let letters: Vec<String> = alpha.iter().map(|s| s.to_string()).collect();
            let mut base: Vec<Vec<u8>> = vec![];
            for l in &letters {
                for b in l.as_bytes() {
                    if !base.contains(&vec![*b]) {
                        base.push(vec![*b]);
                    }
                }
            }
            base.push(vec![b' ']);
            let mut toks = base.clone();
            let mut entries: Vec<Vec<u8>> = vec![];
            for (l, r, mode) in picks {
                let n = toks.len();
                let pick = |i: u16, recent: bool| -> Vec<u8> {
                    if recent && n > base.len() {
                        // one of the last three created entries
                        let k = (n - base.len()).min(3);
                        toks[n - 1 - idx16(i, k)].clone()
                    } else {
                        toks[idx16(i, n)].clone()
                    }
                };
                let (left, right) = match mode {
                    0 | 1 => (pick(l, true), pick(r, false)),  // extend a chain to the right
                    2 => (pick(l, false), pick(r, true)),      // extend a chain to the left
                    3 | 7 => (vec![b' '], pick(r, false)),     // whitespace-prefixed token
                    _ => (pick(l, false), pick(r, false)),
                };
                let e = [left.as_slice(), right.as_slice()].concat();
                // words are `\s+\S+`: whitespace can only lead, so mostly such shapes; one pick
                // in eight may put spaces anywhere (runs of spaces at the start of a word do
                // apply, other shapes are well-formed entries that never match)
                if e.len() > 12 || toks.contains(&e) || (mode != 7 && e[1..].contains(&b' ')) {
                    continue;
                }
                toks.push(e.clone());
                entries.push(e);
            }
            (letters, Table { entries })
        })
        .boxed()
}

/// text made of words over the letters / table tokens, separated by whitespace runs
pub fn table_text(letters: Vec<String>, table: Table, max_words: usize) -> BoxedStrategy<String> {
    let mut pieces: Vec<String> = letters.clone();
    for e in &table.entries {
        if let Ok(s) = std::str::from_utf8(e) {
            let s = s.trim_start();
            if !s.is_empty() {
                pieces.push(s.to_string());
            }
        }
    }
    let word = proptest::collection::vec(select(pieces), 1..=5).prop_map(|v| v.concat());
    let sep = prop_oneof![
        6 => Just(" ".to_string()),
        1 => Just("  ".to_string()),
        1 => Just("   ".to_string()),
        2 => crate::gen::ws_run(1, 3),
        1 => Just(String::new()),
    ];
    (
        crate::gen::ws_run(0, 2),
        proptest::collection::vec((word, sep), 0..=max_words),
        any::<bool>(),
    )
        .prop_map(|(lead, words, keep_trailing)| {
            let mut s = lead;
            let n = words.len();
            for (i, (w, sep)) in words.into_iter().enumerate() {
                s.push_str(&w);
                if i + 1 < n || keep_trailing {
                    s.push_str(&sep);
                }
            }
            s
        })
        .boxed()
}
