//! C08 — the training item stream is reproducible, shardable and resumable.
use super::common::work_dir;
use crate::engine::*;
use crate::ensure;
use crate::sched::Chaos;
use proptest::prelude::*;
use proptest::sample::select;
use serde::{Deserialize, Serialize};
use std::collections::{BTreeMap, HashSet};
use std::sync::Arc;
use text_utils::data::loading::{BatchLimitType, GenerationStrategy};
use text_utils::data::postprocessing::PostprocessingFnConfig;
use text_utils::data::preprocessing::{Part, PreprocessingFnConfig, SpellingCorruptionMode};
use text_utils::data::task::TrainTaskConfig;
use text_utils::data::verif::{LoaderArgs, LoaderHandle};
use text_utils::data::{PostprocessingConfig, PreprocessingConfig, TrainPipelineConfig};
use text_utils::tokenization::{
    ByteGroups, ByteTokenizerConfig, GroupAggregation, SpecialConfig, TokenizeConfig,
    TokenizerConfig,
};
use text_utils::verif::Controller;

#[derive(Debug, Clone, Serialize, Deserialize)]
pub struct Pipeline {
    /// 0 none, 1 clean, 2 whitespace corruption, 3 switch[none, ws], 4 spelling, 5 switch[spelling, none], 6 chain[spelling, ws]
    pub pre: u8,
    pub p_ins: f64,
    pub p_del: f64,
    pub spell_p: f64,
    pub char_p: f64,
    /// 3-grams "prev cur next" with frequencies (ties on purpose)
    pub grams: Vec<(String, String, String, u8)>,
    /// 0 none, 1 clip length, 2 token masking
    pub post: u8,
    pub max_length: usize,
}

#[derive(Debug, Clone, Serialize, Deserialize)]
pub struct Case {
    /// per file: lines; a line is Ok(text) or a malformed json line
    pub files: Vec<Vec<Result<String, String>>>,
    pub strategy: u8,
    /// None = the loader's default (no seed given; only legal without shuffle)
    pub seed: Option<u64>,
    pub epoch: usize,
    pub skip: usize,
    pub limit: Option<usize>,
    pub world: usize,
    pub ff: usize,
    pub threads: u8,
    pub buffer: usize,
    pub sort: bool,
    pub shuffle: bool,
    pub prefetch: usize,
    pub batch_limit: usize,
    pub padded: bool,
    pub pipeline: Pipeline,
    pub chaos: u64,
    pub split_at: usize,
}

pub struct C08;

type Fp = (String, String, String); // (input, target, task input)

fn tok_cfg() -> TokenizerConfig {
    let mut special = SpecialConfig::default();
    special.tokens.push("<mask>".to_string());
    special.prefix = vec!["<bos>".to_string()];
    special.suffix = vec!["<eos>".to_string()];
    TokenizerConfig {
        tokenize: TokenizeConfig::Byte(ByteTokenizerConfig {
            use_graphemes: true,
            pad_to_multiple_of: None,
            groups: ByteGroups::Bytes,
            aggregation: GroupAggregation::Mean,
        }),
        special,
    }
}

fn pipeline_cfg(p: &Pipeline, gram_file: &std::path::Path) -> TrainPipelineConfig {
    let ws = || PreprocessingFnConfig::WhitespaceCorruption(Part::Input, p.p_ins, p.p_del, true);
    let spell = || {
        PreprocessingFnConfig::SpellingCorruption(
            Part::Input,
            p.spell_p,
            true,
            SpellingCorruptionMode::Artificial(p.char_p, 2.0, Some(gram_file.to_path_buf())),
        )
    };
    let pre = match p.pre {
        0 => PreprocessingFnConfig::None,
        1 => PreprocessingFnConfig::Clean(Part::Input, true),
        2 => ws(),
        3 => PreprocessingFnConfig::Switch(vec![PreprocessingFnConfig::None, ws()], vec![0.4, 0.6]),
        4 => spell(),
        5 => PreprocessingFnConfig::Switch(vec![spell(), PreprocessingFnConfig::None], vec![0.7, 0.3]),
        _ => PreprocessingFnConfig::Chain(vec![spell(), ws()]),
    };
    let task = if p.pre <= 3 {
        TrainTaskConfig::WhitespaceCorrection(true, tok_cfg())
    } else {
        TrainTaskConfig::Generation(false, tok_cfg(), true, Some(" => ".to_string()))
    };
    let post = match p.post {
        0 => PostprocessingFnConfig::None,
        1 => PostprocessingFnConfig::ClipLength,
        _ => PostprocessingFnConfig::TokenMasking(tok_cfg(), 0.3, 1, 0.5, "<mask>".to_string()),
    };
    TrainPipelineConfig {
        preprocessing: PreprocessingConfig::Global(pre),
        task,
        postprocessing: PostprocessingConfig::Global(post),
    }
}

struct Files {
    paths: Vec<String>,
    gram: std::path::PathBuf,
}

static CASE_COUNTER: std::sync::atomic::AtomicUsize = std::sync::atomic::AtomicUsize::new(0);

fn write_files(c: &Case) -> Files {
    // a directory of its own for every case: files are never rewritten under a loader thread of
    // an earlier case that is still winding down
    let n = CASE_COUNTER.fetch_add(1, std::sync::atomic::Ordering::Relaxed);
    let dir = work_dir().join(format!("c08-{n}"));
    let _ = std::fs::create_dir_all(&dir);
    if n >= 4 {
        let _ = std::fs::remove_dir_all(work_dir().join(format!("c08-{}", n - 4)));
    }
    let mut paths = vec![];
    for (i, lines) in c.files.iter().enumerate() {
        let p = dir.join(format!("c08-{i}.jsonl"));
        let mut s = String::new();
        for (l, line) in lines.iter().enumerate() {
            match line {
                Ok(t) => {
                    let text = format!("f{i}l{l} {t}");
                    s.push_str(&serde_json::json!({ "input": text.trim_end() }).to_string());
                }
                Err(bad) => s.push_str(bad),
            }
            s.push('\n');
        }
        std::fs::write(&p, s).expect("write jsonl");
        paths.push(p.to_string_lossy().to_string());
    }
    let gram = dir.join("c08.grams");
    let mut seen = HashSet::new();
    let mut g = String::new();
    for (a, b, cc, f) in &c.pipeline.grams {
        if seen.insert((a.clone(), b.clone(), cc.clone())) {
            g.push_str(&format!("{a} {b} {cc}\t{}\n", *f as usize));
        }
    }
    if g.is_empty() {
        g.push_str("a b c\t5\n");
    }
    std::fs::write(&gram, g).expect("write grams");
    Files { paths, gram }
}

#[derive(Clone)]
struct Vary {
    threads: u8,
    buffer: usize,
    world: Option<(usize, usize)>,
    ff: usize,
    skip: usize,
    limit: Option<usize>,
    sort: bool,
    shuffle: bool,
    prefetch: usize,
    batch_limit: usize,
    chaos: Option<u64>,
}

fn loader_args(c: &Case, f: &Files, v: &Vary, epoch: usize) -> LoaderArgs {
    LoaderArgs {
        files: f.paths.clone(),
        pipeline: pipeline_cfg(&c.pipeline, &f.gram),
        strategy: match c.strategy {
            0 => GenerationStrategy::Sequential,
            1 => GenerationStrategy::Interleaved,
            _ => GenerationStrategy::Weighted,
        },
        num_threads: v.threads,
        buffer_size: v.buffer,
        batch_limit: v.batch_limit,
        batch_limit_type: if c.padded { BatchLimitType::PaddedItemSize } else { BatchLimitType::BatchSize },
        max_length: c.pipeline.max_length,
        shuffle: v.shuffle,
        prefetch_factor: v.prefetch,
        sort: v.sort,
        seed: c.seed,
        skip: v.skip,
        limit: v.limit,
        distributed: v.world,
        epoch,
        fast_forward: v.ff,
        max_batches: None,
    }
}

fn open(c: &Case, f: &Files, v: &Vary, epoch: usize) -> Result<LoaderHandle, String> {
    let args = loader_args(c, f, v, epoch);
    if let Some(ch) = v.chaos {
        text_utils::verif::install(Some(Chaos::new(ch) as Arc<dyn Controller>));
    }
    beat();
    let opened = LoaderHandle::open(&args);
    text_utils::verif::install(None);
    // Pipe::new replaced the panic hook by one that exits the process; take it back before any
    // item is pulled, so that a panic in the code under test is recorded, not fatal
    install_panic_hook();
    opened.map_err(|e| format!("loader construction failed: {e}"))
}

fn drain(handle: &mut LoaderHandle, max_batches: usize) -> Result<Vec<Vec<Fp>>, String> {
    let mut views = vec![];
    while views.len() < max_batches {
        beat();
        match handle.next_batch() {
            Ok(Some(b)) => views.push(b),
            Ok(None) => break,
            Err(e) => return Err(format!("loader failed: {e}")),
        }
        if views.len() > 10_000 {
            return Err("loader yields batches without end".into());
        }
    }
    beat();
    Ok(views
        .iter()
        .map(|b| b.items.iter().map(|i| (i.input.clone(), i.target.clone(), format!("{:?}", i.task))).collect())
        .collect())
}

fn run(c: &Case, f: &Files, v: &Vary) -> Result<(Option<usize>, Vec<Vec<Fp>>), String> {
    let base = thread_count();
    let mut handle = open(c, f, v, c.epoch)?;
    let min_items = handle.min_items;
    let batches = drain(&mut handle, usize::MAX)?;
    drop(handle);
    settle(base)?;
    Ok((min_items, batches))
}

/// every thread the loader started must be gone before the next run starts (C09 is about that;
/// here it keeps runs from disturbing each other and attributes a late panic to the right case)
fn settle(base: usize) -> Result<(), String> {
    beat();
    // not a verdict here (that threads exit after a drop is C09's subject)
    let _ = wait_threads(base, std::time::Duration::from_secs(5));
    beat();
    Ok(())
}

/// the Python usage pattern: one loader object, `set_epoch` + `__iter__` at the start of every
/// epoch; the previous epoch was abandoned after `first` batches
fn run_reused(c: &Case, f: &Files, v: &Vary, other_epoch: usize, first_ff: usize, first: usize) -> Result<Vec<Vec<Fp>>, String> {
    let base = thread_count();
    // the first iteration may use another fast-forward offset (and the same or another epoch)
    let v1 = Vary { ff: first_ff, ..v.clone() };
    let mut handle = open(c, f, &v1, other_epoch)?;
    let _ = drain(&mut handle, first)?;
    if let Some(ch) = v.chaos {
        text_utils::verif::install(Some(Chaos::new(ch ^ 0x55) as Arc<dyn Controller>));
    }
    let r = handle.restart(c.epoch, v.ff);
    text_utils::verif::install(None);
    install_panic_hook();
    r.map_err(|e| format!("restart failed: {e}"))?;
    let batches = drain(&mut handle, usize::MAX)?;
    drop(handle);
    settle(base)?;
    Ok(batches)
}

fn flat(b: &[Vec<Fp>]) -> Vec<Fp> {
    b.iter().flatten().cloned().collect()
}

fn marker(fp: &Fp) -> String {
    fp.1.split(' ').next().unwrap_or("").to_string()
}

fn multiset(v: &[Fp]) -> BTreeMap<Fp, usize> {
    let mut m = BTreeMap::new();
    for x in v {
        *m.entry(x.clone()).or_insert(0) += 1;
    }
    m
}

const LETTERS: &[&str] = &["a", "b", "c", "d"];

impl Prop for C08 {
    type Case = Case;
    const ID: &'static str = "C08";
    const RULE: &'static str = "1-3 jsonl files of 0-12 clean lines (occasionally up to 5 files of up to 60 lines, world size up to 9, 12 threads, buffer 32) over a 4-letter alphabet (each line carries a unique file:line marker; ~5% malformed lines) x strategy x seed (or none given: the loader's default, without shuffle) x epoch x skip x limit x world size 1..=4 x fast-forward k x num_threads 0..=4 x buffer 0..=4 x sort/shuffle/prefetch/batch limit/limit type x pipeline grammar (preprocessing in {none, clean, whitespace corruption, switch, spelling corruption with a generated 3-gram table with tied frequencies, chain}, task whitespace correction or generation with a byte tokenizer, postprocessing in {none, clip length, token masking}); every case runs the real TrainLoader ~10 times through the verif driver (reference run: threads 0, world 1, k 0, no sort/shuffle) under a chaos controller and checks: identical batches for other (threads, buffer), for a fresh loader and for the same loader object re-iterated (set_epoch + set_fast_forward + __iter__) after another or the same epoch with the same or another fast-forward offset, abandoned after 0-3 batches; same item multiset for any batching; per-rank streams disjoint with union = reference (positional when unshuffled); fast_forward(k) = reference after its first k; skip=m / limit=m split; every marker has one fingerprint in all runs. Non-trivial: randomised preprocessing, >= 4 items and at least two of {world > 1, k > 0, threads > 0, shuffle}. Distinct = distinct serialised case.";
    const HANG_SECS: u64 = 60;
    const ESSENTIAL: &'static [&'static str] = &["ws_corruption", "spelling_corruption", "switch", "world>1", "ff>0", "threads>0", "shuffle", "sort", "malformed_lines", "weighted", "interleaved", "skip_limit", "token_masking", "reused_loader", "no_seed", "reiterated_unread_same_epoch"];

    fn budget(tier: Tier) -> Budget {
        match tier {
            Tier::Quick => Budget { cases: 100, shards: 16 },
            Tier::Thorough => Budget { cases: 4500, shards: 16 },
        }
    }

    fn strategy(_tier: Tier, _shard: u32) -> BoxedStrategy<Case> {
        let word = proptest::collection::vec(select(LETTERS), 1..=5).prop_map(|v| v.concat());
        let text = proptest::collection::vec(word, 1..=5).prop_map(|w| w.join(" "));
        let line = prop_oneof![
            19 => text.prop_map(Ok),
            1 => select(vec!["not json", "{\"input\": 5}", "[1,2]", "{\"target\": \"x\"}"]).prop_map(|s| Err(s.to_string())),
        ];
        let files = prop_oneof![
            150 => proptest::collection::vec(proptest::collection::vec(line.clone(), 0..=12), 1..=3),
            15 => proptest::collection::vec(proptest::collection::vec(line.clone(), 0..=60), 1..=5),
            // more than 256 lines in one file (counters and block sizes), alone or next to a short file
            1 => (proptest::collection::vec(line.clone(), 250..=270), proptest::collection::vec(line, 0..=3), any::<bool>())
                .prop_map(|(long, short, two)| if two { vec![short, long] } else { vec![long] }),
        ];
        let ctx = || {
            let mut v: Vec<String> = LETTERS.iter().map(|s| s.to_string()).collect();
            v.push("<bow>".into());
            v.push("<eow>".into());
            select(v)
        };
        let gram = (ctx(), select(LETTERS).prop_map(str::to_string), ctx(), prop_oneof![3 => Just(5u8), 1 => Just(7u8)]);
        let pipeline = (
            0u8..7,
            select(vec![0.0f64, 0.2, 0.5, 1.0]),
            select(vec![0.1f64, 0.3, 1.0]),
            select(vec![0.3f64, 0.8, 1.0]),
            select(vec![0.0f64, 0.3, 0.6]),
            proptest::collection::vec(gram, 6..=40),
            0u8..3,
            prop_oneof![4 => Just(512usize), 1 => 4usize..40],
        )
            .prop_map(|(pre, p_ins, p_del, spell_p, char_p, grams, post, max_length)| Pipeline { pre, p_ins, p_del, spell_p, char_p, grams, post, max_length });
        (
            (files, 0u8..3, prop_oneof![5 => (0u64..6).prop_map(Some), 1 => Just(None)], 0usize..3),
            (0usize..6, prop_oneof![2 => Just(None), 1 => (0usize..30).prop_map(Some)], prop_oneof![10 => 1usize..=4, 1 => 5usize..=9], prop_oneof![8 => 0usize..8, 1 => 8usize..40]),
            (prop_oneof![10 => 0u8..=4, 1 => 5u8..=12], prop_oneof![10 => 0usize..=4, 1 => 5usize..=32], any::<bool>(), any::<bool>(), 0usize..=3, prop_oneof![10 => 1usize..=6, 1 => 7usize..=40], any::<bool>()),
            (pipeline, any::<u64>(), 0usize..24),
        )
            .prop_map(|((files, strategy, seed, epoch), (skip, limit, world, ff), (threads, buffer, sort, shuffle, prefetch, batch_limit, padded), (pipeline, chaos, split_at))| {
                let mut files = files;
                if strategy == 2 {
                    // weighted: every source needs a positive length
                    for f in files.iter_mut() {
                        if f.is_empty() {
                            f.push(Ok("a".to_string()));
                        }
                    }
                }
                let batch_limit = if padded { batch_limit * 24 } else { batch_limit };
                // the loader rejects shuffle without a seed
                let shuffle = shuffle && seed.is_some();
                Case { files, strategy, seed, epoch, skip, limit, world, ff, threads, buffer, sort, shuffle, prefetch, batch_limit, padded, pipeline, chaos, split_at }
            })
            .boxed()
    }

    fn assumptions() -> Vec<String> {
        vec![
            "\"the item stream\" is indexed by global item index (position in the multi-source order, from which the per-item seed is derived); with sort/shuffle on, fast_forward and rank relations are checked as multisets".into(),
            "fast_forward / rank relations are asserted for files without malformed lines (a dropped line shifts emission positions against indices); same-configuration, fresh-loader, batching-invariance and skip/limit relations are asserted always".into(),
            "items are identified by the file:line marker in the target text, which the generated preprocessing functions never touch".into(),
            "real OS threads: the schedule is perturbed by a chaos controller, not enumerated (C05 covers controlled schedules of the Pipe); a failing schedule reproduces only probabilistically".into(),
        ]
    }

    fn check(c: &Case, _strict: bool) -> Outcome {
        let mut out = Outcome::new();
        let f = write_files(c);
        let malformed = c.files.iter().flatten().any(|l| l.is_err());
        let total: usize = c.files.iter().map(|f| f.len()).sum();
        out.label_if(malformed, "malformed_lines");
        out.label_if(matches!(c.pipeline.pre, 2 | 3 | 6), "ws_corruption");
        out.label_if(c.pipeline.pre >= 4, "spelling_corruption");
        out.label_if(matches!(c.pipeline.pre, 3 | 5), "switch");
        out.label_if(c.pipeline.post == 2, "token_masking");
        out.label_if(c.world > 1, "world>1");
        out.label_if(c.ff > 0, "ff>0");
        out.label_if(c.threads > 0, "threads>0");
        out.label_if(c.shuffle, "shuffle");
        out.label_if(c.seed.is_none(), "no_seed");
        out.label_if(c.files.iter().any(|f| f.len() > 256), "file_with_more_than_256_lines");
        out.label_if(c.sort, "sort");
        out.label_if(c.strategy == 2, "weighted");
        out.label_if(c.strategy == 1, "interleaved");
        out.label_if(c.skip > 0 || c.limit.is_some(), "skip_limit");
        let base = Vary {
            threads: 0,
            buffer: 1,
            world: None,
            ff: 0,
            skip: c.skip,
            limit: c.limit,
            sort: false,
            shuffle: false,
            prefetch: 1,
            batch_limit: c.batch_limit,
            chaos: None,
        };
        macro_rules! go {
            ($v:expr) => {
                match run(c, &f, &$v) {
                    Ok(x) => x,
                    Err(e) => {
                        out.fail(e);
                        return out;
                    }
                }
            };
        }
        // reference stream S
        let (min_items, ref_batches) = go!(base);
        let s = flat(&ref_batches);
        let want_min = total.min(c.limit.unwrap_or(usize::MAX)).saturating_sub(c.skip);
        ensure!(out, min_items == Some(want_min), "min_items {min_items:?}, expected {want_min}");
        let randomised = c.pipeline.pre >= 2;
        let twos = [c.world > 1, c.ff > 0, c.threads > 0, c.shuffle].iter().filter(|b| **b).count();
        out.nontrivial = randomised && s.len() >= 4 && twos >= 2;
        let mut by_marker: BTreeMap<String, Fp> = BTreeMap::new();
        for fp in &s {
            ensure!(out, by_marker.insert(marker(fp), fp.clone()).is_none(), "marker {} appears twice in the reference stream", marker(fp));
        }
        let check_fps = |name: &str, v: &[Fp], out: &mut Outcome| -> bool {
            for fp in v {
                match by_marker.get(&marker(fp)) {
                    Some(r) if r == fp => {}
                    Some(r) => {
                        out.fail(format!("{name}: item {} is processed differently than in the reference run: {fp:?} vs {r:?}", marker(fp)));
                        return false;
                    }
                    None => {
                        out.fail(format!("{name}: item {} does not occur in the reference stream", marker(fp)));
                        return false;
                    }
                }
            }
            true
        };
        // 2. fresh loader (new pipeline instance), identical configuration: identical batches
        let cfg = Vary { sort: c.sort, shuffle: c.shuffle, prefetch: c.prefetch, ..base.clone() };
        let (_, b0) = go!(cfg);
        let (_, b0b) = go!(cfg);
        ensure!(out, b0 == b0b, "two loaders with the same configuration (threads 0) produced different batches (first difference: {:?})",
            flat(&b0).iter().zip(flat(&b0b).iter()).find(|(a, b)| a != b));
        // 1. other (threads, buffer), chaos controller: identical batches
        let (_, b1) = go!(Vary { threads: c.threads, buffer: c.buffer, chaos: Some(c.chaos), ..cfg.clone() });
        ensure!(out, b0 == b1, "batches differ between (threads 0, buffer 1) and (threads {}, buffer {}): {:?} vs {:?}", c.threads, c.buffer,
            b0.iter().map(|b| b.iter().map(marker).collect::<Vec<_>>()).collect::<Vec<_>>(), b1.iter().map(|b| b.iter().map(marker).collect::<Vec<_>>()).collect::<Vec<_>>());
        // 8. the same loader object, re-iterated for this epoch after another epoch was (partly)
        // consumed, yields what a fresh loader yields
        {
            let v = Vary { threads: c.threads, buffer: c.buffer, chaos: Some(c.chaos.wrapping_add(7)), ..cfg.clone() };
            // the earlier iteration: another epoch or (one case in three) the same epoch, with the
            // same or another fast-forward offset, abandoned after 0-3 batches
            let (d_epoch, d_ff, first) = (c.split_at % 3, (c.split_at / 3) % 2, (c.split_at / 6) % 4);
            let other = if d_epoch == 2 { c.epoch } else { c.epoch + 1 + d_epoch };
            let first_ff = if d_ff == 0 { v.ff } else { v.ff + 1 + c.split_at % 3 };
            out.label_if(other == c.epoch && first_ff != v.ff && first == 0, "reiterated_unread_same_epoch");
            match run_reused(c, &f, &v, other, first_ff, first) {
                Ok(b) => ensure!(out, b == b0, "a loader that was iterated for epoch {other} with fast_forward {first_ff} (abandoned after {} batches) and then restarted for epoch {} with fast_forward {} differs from a fresh loader: {:?} vs {:?}", first, c.epoch, v.ff,
                    b.iter().map(|x| x.iter().map(marker).collect::<Vec<_>>()).collect::<Vec<_>>(), b0.iter().map(|x| x.iter().map(marker).collect::<Vec<_>>()).collect::<Vec<_>>()),
                Err(e) => {
                    out.fail(e);
                    return out;
                }
            }
            out.label("reused_loader");
        }
        // 3. batching does not change the item multiset
        ensure!(out, multiset(&flat(&b0)) == multiset(&s), "sort={} shuffle={} prefetch={} changes the set of items: {} vs {} items", c.sort, c.shuffle, c.prefetch, flat(&b0).len(), s.len());
        if !check_fps("batched run", &flat(&b0), &mut out) {
            return out;
        }
        // 6. skip = m / limit = m split the data without overlap
        {
            let m = c.split_at;
            let (_, head) = go!(Vary { skip: 0, limit: Some(m), ..base.clone() });
            let (_, tail) = go!(Vary { skip: m, limit: None, ..base.clone() });
            let (_, all) = go!(Vary { skip: 0, limit: None, ..base.clone() });
            let (h, t, a) = (flat(&head), flat(&tail), flat(&all));
            let hm: HashSet<String> = h.iter().map(marker).collect();
            ensure!(out, !t.iter().any(|x| hm.contains(&marker(x))), "limit={m} and skip={m} overlap");
            let mut joined = h.clone();
            joined.extend(t.iter().cloned());
            ensure!(out, joined == a, "limit={m} followed by skip={m} is not the full stream: {} + {} vs {} items", h.len(), t.len(), a.len());
        }
        if malformed {
            return out;
        }
        // 4. ranks
        let w = c.world;
        if w > 1 {
            let mut union: Vec<Fp> = vec![];
            let mut seen: HashSet<String> = HashSet::new();
            for r in 0..w {
                let (_, br) = go!(Vary { world: Some((r, w)), threads: c.threads, buffer: c.buffer, chaos: Some(c.chaos ^ r as u64), sort: c.sort, shuffle: c.shuffle, prefetch: c.prefetch, ..base.clone() });
                let sr = flat(&br);
                for x in &sr {
                    ensure!(out, seen.insert(marker(x)), "item {} is delivered to two ranks (world {w})", marker(x));
                }
                if !c.sort && !c.shuffle {
                    let want: Vec<Fp> = s.iter().skip(r).step_by(w).cloned().collect();
                    ensure!(out, sr == want, "rank {r}/{w} stream is not every {w}-th item of the single-process stream starting at {r}: {:?} vs {:?}", sr.iter().map(marker).collect::<Vec<_>>(), want.iter().map(marker).collect::<Vec<_>>());
                }
                union.extend(sr);
            }
            ensure!(out, multiset(&union) == multiset(&s), "union of the {w} rank streams ({} items) != single-process stream ({} items)", union.len(), s.len());
            if !check_fps("rank run", &union, &mut out) {
                return out;
            }
        }
        // 5. fast forward
        if c.ff > 0 {
            let k = c.ff;
            let mut union: Vec<Fp> = vec![];
            for r in 0..w {
                let world = if w > 1 { Some((r, w)) } else { None };
                let (_, br) = go!(Vary { world, ff: k, threads: c.threads, buffer: c.buffer, chaos: Some(c.chaos ^ 0xff ^ r as u64), sort: c.sort, shuffle: c.shuffle, prefetch: c.prefetch, ..base.clone() });
                union.extend(flat(&br));
            }
            let want: Vec<Fp> = s.iter().skip(k).cloned().collect();
            if w == 1 && !c.sort && !c.shuffle {
                ensure!(out, union == want, "fast_forward({k}) does not yield the stream after its first {k} items: {:?} vs {:?}", union.iter().map(marker).collect::<Vec<_>>(), want.iter().map(marker).collect::<Vec<_>>());
            } else {
                ensure!(out, multiset(&union) == multiset(&want), "fast_forward({k}) (world {w}) yields {} items, the stream after its first {k} has {}", union.len(), want.len());
            }
            if !check_fps("fast-forward run", &union, &mut out) {
                return out;
            }
        }
        out
    }
}
