//! C01 — byte and character tokenizers encode every character faithfully and losslessly.
use super::c04::{build, byte_kind, char_kind, expect, Kind};
use super::common::*;
use crate::engine::*;
use crate::ensure;
use crate::gen;
use proptest::prelude::*;
use serde::{Deserialize, Serialize};

#[derive(Debug, Clone, Serialize, Deserialize)]
pub struct Case {
    pub kind: Kind,
    pub special: SpecialCfg,
    pub text: String,
    pub ignore_special: bool,
    /// the tokenized text is `text` repeated this many times (0 = once): long inputs without long cases
    #[serde(default)]
    pub repeat: usize,
}

pub struct C01;

fn ascii_text(extra: Vec<String>) -> BoxedStrategy<String> {
    proptest::collection::vec(
        prop_oneof![
            5 => "[ -~]{0,6}",
            3 => proptest::sample::select(extra),
        ],
        0..=6,
    )
    .prop_map(|v| v.concat())
    .boxed()
}

impl Prop for C01 {
    type Case = Case;
    const ID: &'static str = "C01";
    const FUZZ_TARGET: Option<&'static str> = Some("bytechar_tok");
    const FUZZ_RUNS: u64 = 1000000;
    fn fuzz_decode(bytes: &[u8]) -> Option<Case> {
        crate::fuzzdec::c01(bytes)
    }
    const RULE: &'static str = "Unicode text from fragment pools (multi-byte, combining sequences, CRLF, ZWJ emoji, hazards) mixed with the case's own special-token spellings and look-alikes ('<pad', 'pad>', doubled, nested, upper-cased, adjacent to multi-byte characters), one text in 150 repeated to more than 4 KB and one in 1500 to more than 64 KB, x byte tokenizer configs (graphemes, byte/code-point groups, pad_to_multiple_of, aggregation) or char tokenizer configs (graphemes, unk inside/outside the token list) x special configs (extra tokens, duplicates, prefix/suffix) x ignore_special_tokens; oracle: independent leftmost special-token scanner + UTF-8 bytes, round trip. Non-trivial: the text contains a multi-byte character and (a special spelling/look-alike, or a non-empty prefix/suffix list). Distinct = distinct serialised case.";
    const ESSENTIAL: &'static [&'static str] = &["byte", "char", "special_in_text", "special_adjacent_multibyte", "prefix_suffix", "parsing_off", "char_over_alphabet", "multi_cp_cluster", "longer_than_4096_bytes"];

    fn budget(tier: Tier) -> Budget {
        match tier {
            Tier::Quick => Budget { cases: 7500, shards: 16 },
            Tier::Thorough => Budget { cases: 640000, shards: 16 },
        }
    }

    fn strategy(_tier: Tier, _shard: u32) -> BoxedStrategy<Case> {
        special_cfg()
            .prop_flat_map(|special| {
                let look = special_lookalikes(&special);
                let kind = prop_oneof![byte_kind(), char_kind(&special)];
                let text = prop_oneof![
                    6 => gen::text_with(look.clone(), 10),
                    2 => ascii_text(look.clone()),
                    1 => gen::text(12),
                    1 => gen::text_with(look.clone(), 60),
                ];
                // one case in 150 repeats a short text until it is longer than 4 KB (any cluster of the
                // text then sits at many different offsets), one in 1500 until it is longer than 64 KB
                let repeat = prop_oneof![1500 => Just(0usize), 10 => 120usize..=600, 1 => 2000usize..=3000];
                (kind, text, any::<bool>(), repeat).prop_map(move |(kind, text, ignore_special, repeat)| {
                    let repeat = if text.len() > 120 { 0 } else if repeat > 0 && text.len() < 40 { repeat * 2 } else { repeat };
                    Case { kind, special: special.clone(), text, ignore_special, repeat }
                })
            })
            .boxed()
    }

    fn assumptions() -> Vec<String> {
        vec![
            "special-token sets are prefix-free and every token has >= 2 bytes (otherwise the parse is ambiguous: the implementation's regex alternation follows HashMap order)".into(),
            "expected special ids: #regular + index in the first-occurrence de-duplicated token list (+ <extra_token_i> for pad_to_multiple_of, + unk for the char tokenizer)".into(),
            "characters are code points or unicode-segmentation clusters of each regular stretch between special-token occurrences".into(),
            "texts <= ~120 bytes".into(),
        ]
    }

    fn check(c: &Case, _strict: bool) -> Outcome {
        let mut out = Outcome::new();
        let tok = match build(&c.kind, &c.special, "c01.merges") {
            Ok(t) => t,
            Err(e) => {
                out.fail(format!("tokenizer construction failed: {e}"));
                return out;
            }
        };
        let vocab = match tok.get_vocab() {
            Ok(v) => v,
            Err(e) => {
                out.fail(format!("get_vocab failed: {e}"));
                return out;
            }
        };
        let ex = match expect(&c.kind, &c.special, &vocab) {
            Ok(e) => e,
            Err(e) => {
                out.fail(e);
                return out;
            }
        };
        let nreg = ex.regular.len();
        let sid = |t: &str| -> u32 { (nreg + ex.special.iter().position(|u| u == t).expect("special")) as u32 };
        let pre: Vec<u32> = c.special.prefix.iter().map(|t| sid(t)).collect();
        let suf: Vec<u32> = c.special.suffix.iter().map(|t| sid(t)).collect();
        let pre_s: String = c.special.prefix.concat();
        let suf_s: String = c.special.suffix.concat();
        out.label_if(!pre.is_empty() || !suf.is_empty(), "prefix_suffix");
        out.label_if(c.ignore_special, "parsing_off");
        let long_text = c.text.repeat(c.repeat.max(1));
        let s = long_text.as_str();
        out.label_if(s.len() > 4096, "longer_than_4096_bytes");
        out.label_if(s.len() > 65536, "longer_than_65536_bytes");
        let units = if c.ignore_special {
            if s.is_empty() { vec![] } else { vec![Ok(s)] }
        } else {
            scan_specials(s, &ex.special)
        };
        let has_special = units.iter().any(|u| u.is_err());
        out.label_if(has_special, "special_in_text");
        let multibyte = s.chars().any(|ch| ch.len_utf8() > 1);
        let lookalike = ex.special.iter().any(|t| {
            let cs: Vec<char> = t.chars().collect();
            let head: String = cs[..cs.len() - 1].iter().collect();
            s.contains(&head)
        });
        out.nontrivial = multibyte && (lookalike || has_special || !pre.is_empty() || !suf.is_empty());
        for w in units.windows(2) {
            match (&w[0], &w[1]) {
                (Ok(t), Err(_)) if t.chars().last().is_some_and(|ch| ch.len_utf8() > 1) => out.label("special_adjacent_multibyte"),
                (Err(_), Ok(t)) if t.chars().next().is_some_and(|ch| ch.len_utf8() > 1) => out.label("special_adjacent_multibyte"),
                _ => {}
            }
        }
        let ids = match tok.tokenize(s, c.ignore_special) {
            Ok(t) => t.token_ids,
            Err(e) => {
                out.fail(format!("tokenize({s:?}) failed: {e}"));
                return out;
            }
        };
        // the same tokenizer object used again: another text in between must not change the answer
        {
            let other: String = s.chars().rev().take(24).collect();
            let _ = tok.tokenize(&other, c.ignore_special);
            let _ = tok.tokenize("", c.ignore_special);
            match tok.tokenize(s, c.ignore_special) {
                Ok(t) => ensure!(out, t.token_ids == ids, "the same tokenizer gives a different answer for the same text after tokenizing another text in between"),
                Err(e) => {
                    out.fail(format!("second tokenize of the same text failed: {e}"));
                    return out;
                }
            }
        }
        ensure!(out, ids.len() >= pre.len() + suf.len() && ids[..pre.len()] == pre[..] && ids[ids.len() - suf.len()..] == suf[..],
            "prefix/suffix ids do not frame the output: ids {ids:?}, prefix {pre:?}, suffix {suf:?}");
        let body = &ids[pre.len()..ids.len() - suf.len()];
        match &c.kind {
            Kind::Byte { .. } => {
                out.label("byte");
                let mut want: Vec<u32> = vec![];
                for u in &units {
                    match u {
                        Ok(t) => want.extend(t.bytes().map(|b| b as u32)),
                        Err(t) => want.push(sid(t)),
                    }
                }
                ensure!(out, body == want, "byte tokenize({s:?}, ignore={}) body = {body:?}, expected {want:?}", c.ignore_special);
                match tok.de_tokenize(body, false) {
                    Ok(d) => ensure!(out, d == s, "de_tokenize(body, keep specials) = {d:?}, input {s:?}"),
                    Err(e) => {
                        out.fail(format!("de_tokenize(body) failed: {e}"));
                        return out;
                    }
                }
                match tok.de_tokenize(&ids, false) {
                    Ok(d) => ensure!(out, d == format!("{pre_s}{s}{suf_s}"), "de_tokenize(ids, keep specials) = {d:?}, expected prefix + {s:?} + suffix"),
                    Err(e) => {
                        out.fail(format!("de_tokenize(ids) failed: {e}"));
                        return out;
                    }
                }
                if c.ignore_special {
                    match tok.de_tokenize(&ids, true) {
                        Ok(d) => ensure!(out, d == s, "parsing off: de_tokenize(ids, ignore specials) = {d:?}, input {s:?}"),
                        Err(e) => {
                            out.fail(format!("de_tokenize(ids, ignore) failed: {e}"));
                            return out;
                        }
                    }
                }
            }
            Kind::Char { graphemes, unk } => {
                out.label("char");
                let unk_id = sid(unk);
                let mut want: Vec<u32> = vec![];
                let mut over_alphabet = true;
                for u in &units {
                    match u {
                        Err(t) => want.push(sid(t)),
                        Ok(t) => {
                            for cl in gen::clusters(t, *graphemes) {
                                let mut it = cl.chars();
                                let _first = it.next().unwrap();
                                if it.next().is_some() {
                                    out.label("multi_cp_cluster");
                                    want.push(unk_id);
                                    over_alphabet = false;
                                } else if ex.regular.iter().any(|t| t.as_slice() == cl.as_bytes()) {
                                    match tok.token_to_id(cl) {
                                        Some(id) if (id as usize) < nreg => want.push(id),
                                        other => {
                                            out.fail(format!("alphabet character {cl:?} has token_to_id {other:?}"));
                                            return out;
                                        }
                                    }
                                } else {
                                    want.push(unk_id);
                                    over_alphabet = false;
                                }
                            }
                        }
                    }
                }
                ensure!(out, body.len() == want.len(), "char tokenize({s:?}) yields {} ids for {} characters", body.len(), want.len());
                ensure!(out, body == want, "char tokenize({s:?}, ignore={}) body = {body:?}, expected {want:?}", c.ignore_special);
                if over_alphabet {
                    out.label_if(!s.is_empty(), "char_over_alphabet");
                    match tok.de_tokenize(&ids, false) {
                        Ok(d) => ensure!(out, d == format!("{pre_s}{s}{suf_s}"), "char round trip: de_tokenize(ids, keep specials) = {d:?}, expected prefix + {s:?} + suffix"),
                        Err(e) => {
                            out.fail(format!("de_tokenize(ids) failed: {e}"));
                            return out;
                        }
                    }
                    if c.ignore_special {
                        match tok.de_tokenize(&ids, true) {
                            Ok(d) => ensure!(out, d == s, "char round trip (parsing off, specials ignored) = {d:?}, input {s:?}"),
                            Err(e) => {
                                out.fail(format!("de_tokenize failed: {e}"));
                                return out;
                            }
                        }
                    }
                }
            }
            Kind::Bpe { .. } => unreachable!(),
        }
        out
    }
}
