//! C04 — tokenizer vocabulary maps are mutually consistent bijections.
use super::c03::max_vocab_strategy;
use super::common::*;
use crate::engine::*;
use crate::ensure;
use proptest::prelude::*;
use proptest::sample::select;
use serde::{Deserialize, Serialize};
use std::collections::HashSet;
use text_utils::tokenization::{
    tokenizer, BPETokenizerConfig, ByteGroups, ByteTokenizerConfig, CharTokenizerConfig,
    GroupAggregation, TokenizeConfig, TokenizerConfig,
};

#[derive(Debug, Clone, Serialize, Deserialize)]
pub enum Kind {
    Byte {
        graphemes: bool,
        code_point_groups: bool,
        pad_to: Option<usize>,
        sum: bool,
    },
    Char {
        graphemes: bool,
        unk: String,
    },
    Bpe {
        table: Table,
        max_vocab: Option<usize>,
        graphemes: bool,
    },
}

#[derive(Debug, Clone, Serialize, Deserialize)]
pub struct Case {
    pub kind: Kind,
    pub special: SpecialCfg,
}

pub struct C04;

pub fn byte_kind() -> BoxedStrategy<Kind> {
    (
        any::<bool>(),
        any::<bool>(),
        prop_oneof![
            2 => Just(None),
            3 => select(vec![1usize, 2, 4, 8, 16, 32, 64, 128, 256, 512]).prop_map(Some),
        ],
        any::<bool>(),
    )
        .prop_map(|(graphemes, code_point_groups, pad_to, sum)| Kind::Byte {
            graphemes,
            code_point_groups,
            pad_to,
            sum,
        })
        .boxed()
}

pub fn char_kind(special: &SpecialCfg) -> BoxedStrategy<Kind> {
    let mut unks: Vec<String> = special.unique_tokens();
    unks.push("<unknown>".to_string());
    unks.push("[?]".to_string());
    (any::<bool>(), select(unks))
        .prop_map(|(graphemes, unk)| Kind::Char { graphemes, unk })
        .boxed()
}

pub fn build(kind: &Kind, special: &SpecialCfg, file: &str) -> anyhow::Result<text_utils::tokenization::Tokenizer> {
    let tokenize = match kind {
        Kind::Byte {
            graphemes,
            code_point_groups,
            pad_to,
            sum,
        } => TokenizeConfig::Byte(ByteTokenizerConfig {
            use_graphemes: *graphemes,
            pad_to_multiple_of: *pad_to,
            groups: if *code_point_groups {
                ByteGroups::CodePoints
            } else {
                ByteGroups::Bytes
            },
            aggregation: if *sum {
                GroupAggregation::Sum
            } else {
                GroupAggregation::Mean
            },
        }),
        Kind::Char { graphemes, unk } => TokenizeConfig::Character(CharTokenizerConfig {
            use_graphemes: *graphemes,
            unk_token: unk.clone(),
        }),
        Kind::Bpe {
            table,
            max_vocab,
            graphemes,
        } => TokenizeConfig::BPE(BPETokenizerConfig {
            merge_file: table.save(file),
            max_vocab_size: *max_vocab,
            use_graphemes: *graphemes,
        }),
    };
    tokenizer(TokenizerConfig {
        tokenize,
        special: special.to_config(),
    })
}

/// independent expectation: (regular tokens in id order or as a set, special tokens in id order)
pub struct Expect {
    pub regular: Vec<Vec<u8>>,
    pub special: Vec<String>,
}

/// `vocab` = the tokenizer's own get_vocab() output; it is consulted only for what the
/// statement leaves open: the names of the padding tokens added for pad_to_multiple_of, the
/// concrete alphabet of the char tokenizer, and how many merges a max_vocab_size keeps.
pub fn expect(kind: &Kind, special: &SpecialCfg, vocab: &[Vec<u8>]) -> Result<Expect, String> {
    match kind {
        Kind::Byte { pad_to, .. } => {
            let mut uniq = special.unique_tokens();
            if let Some(p) = pad_to {
                let n = 256 + uniq.len();
                let padded = n.div_ceil(*p) * *p;
                // the padding tokens are whatever the tokenizer calls them, as long as they are
                // distinct UTF-8 strings of >= 2 bytes that are not among the user's tokens
                for i in n..padded {
                    let Some(t) = vocab.get(i) else {
                        return Err(format!("vocabulary has {} entries, expected padding up to {padded}", vocab.len()));
                    };
                    let Ok(t) = String::from_utf8(t.clone()) else {
                        return Err(format!("padding token {i} is not UTF-8"));
                    };
                    if t.len() < 2 || uniq.contains(&t) {
                        return Err(format!("padding token {i} = {t:?} is empty, a single byte, or a duplicate"));
                    }
                    uniq.push(t);
                }
            }
            Ok(Expect {
                regular: (0..=255u8).map(|b| vec![b]).collect(),
                special: uniq,
            })
        }
        Kind::Char { unk, .. } => {
            let mut uniq = special.unique_tokens();
            if !uniq.contains(unk) {
                uniq.push(unk.clone());
            }
            let Some(nreg) = vocab.len().checked_sub(uniq.len()) else {
                return Err(format!("vocabulary has {} entries, fewer than the {} special tokens", vocab.len(), uniq.len()));
            };
            let regular: Vec<Vec<u8>> = vocab[..nreg].to_vec();
            for t in &regular {
                match std::str::from_utf8(t) {
                    Ok(s) if s.chars().count() == 1 => {}
                    _ => return Err(format!("regular token {t:?} of the char tokenizer is not a single character")),
                }
            }
            // the statement speaks of "its alphabet"; the documented one is printable ASCII
            if !regular.contains(&vec![b'a']) || !regular.contains(&vec![b' ']) || regular.contains(&"ä".as_bytes().to_vec()) {
                return Err("char tokenizer alphabet is not the ASCII alphabet the generators assume".into());
            }
            Ok(Expect { regular, special: uniq })
        }
        Kind::Bpe { table, max_vocab, .. } => {
            let uniq = special.unique_tokens();
            let Some(kept) = vocab.len().checked_sub(256 + uniq.len()) else {
                return Err(format!("vocabulary has {} entries, fewer than 256 bytes + {} special tokens", vocab.len(), uniq.len()));
            };
            if kept > table.entries.len() {
                return Err(format!("{kept} merges in the vocabulary, the table has {}", table.entries.len()));
            }
            match max_vocab {
                None if kept != table.entries.len() => {
                    return Err(format!("no max_vocab_size but only {kept} of {} merges are in the vocabulary", table.entries.len()));
                }
                Some(l) if kept > 0 && vocab.len() > *l => {
                    return Err(format!("vocab size {} exceeds max_vocab_size {l} although merges were kept", vocab.len()));
                }
                _ => {}
            }
            let mut regular: Vec<Vec<u8>> = (0..=255u8).map(|b| vec![b]).collect();
            regular.extend(table.entries[..kept].iter().cloned());
            Ok(Expect { regular, special: uniq })
        }
    }
}

impl Prop for C04 {
    type Case = Case;
    const ID: &'static str = "C04";
    const RULE: &'static str = "tokenizer kind (byte with pad_to_multiple_of in {None,1..512}, char with unk inside/outside the token list, BPE with random well-formed tables <= 40 merges and max_vocab_size truncation) x special configs (defaults first/last, 0-3 extra tokens incl. regex metacharacters and non-ASCII, duplicates, prefix/suffix); every id in [0, vocab_size + 300) and u32::MAX is queried; oracle: cross-consistency of get_vocab / vocab_size / id_to_token / token_to_id / de_tokenize and an independent expectation of the regular and special id ranges. Non-trivial: duplicate or extra special token, >= 1 merge, or truncation took effect. Distinct = distinct serialised case.";
    const ESSENTIAL: &'static [&'static str] = &["byte", "char", "bpe", "bpe_merges", "dup_tokens", "pad_multiple", "truncated"];

    fn budget(tier: Tier) -> Budget {
        match tier {
            Tier::Quick => Budget { cases: 3200, shards: 16 },
            Tier::Thorough => Budget { cases: 179200, shards: 16 },
        }
    }

    fn strategy(_tier: Tier, _shard: u32) -> BoxedStrategy<Case> {
        special_cfg()
            .prop_flat_map(|special| {
                let bpe = prop_oneof![12 => table_strategy(40), 1 => table_strategy(200)].prop_flat_map(|(_, table)| {
                    let n = table.entries.len();
                    (max_vocab_strategy(n), any::<bool>()).prop_map(move |(max_vocab, graphemes)| Kind::Bpe {
                        table: table.clone(),
                        max_vocab,
                        graphemes,
                    })
                });
                prop_oneof![2 => byte_kind(), 2 => char_kind(&special), 3 => bpe.boxed()]
                    .prop_map(move |kind| Case {
                        kind,
                        special: special.clone(),
                    })
            })
            .boxed()
    }

    fn assumptions() -> Vec<String> {
        vec![
            "generated special tokens are prefix-free, >= 2 bytes and never equal to a regular token".into(),
            "what the statement leaves open is read from the tokenizer itself and only validated: names of the pad_to_multiple_of padding tokens, the concrete single-character alphabet of the char tokenizer, the number of merges kept under max_vocab_size (must be a prefix of the table, all of it without a limit, and within the limit)".into(),
            "for a regular token that is not valid UTF-8 on its own nothing is asserted about de_tokenize(&[id]) except that it returns".into(),
        ]
    }

    fn check(c: &Case, _strict: bool) -> Outcome {
        let mut out = Outcome::new();
        let tok = match build(&c.kind, &c.special, "c04.merges") {
            Ok(t) => t,
            Err(e) => {
                out.fail(format!("tokenizer construction failed: {e}"));
                return out;
            }
        };
        let vocab0 = tok.get_vocab();
        // the id space belongs to the configuration, not to what was tokenized so far: use the
        // tokenizer (texts with special-token spellings, unknown characters) and ask again
        let size0 = tok.vocab_size();
        for (t, ign) in [("ab <pad> ä<unk>", false), ("", false), ("x<bos>y\u{10ffff}", true)] {
            let _ = tok.tokenize(t, ign);
        }
        let _ = tok.de_tokenize(&[0, 1], false);
        // a rejected call (ids outside the vocabulary after decodable ones) must not leave anything
        // behind for the calls that follow
        let far = size0 as u32 + 3;
        let _ = tok.de_tokenize(&[far, 1], true);
        let _ = tok.de_tokenize(&[1, 2, far], false);
        let vocab = match tok.get_vocab() {
            Ok(v) => v,
            Err(e) => {
                out.fail(format!("get_vocab failed: {e}"));
                return out;
            }
        };
        ensure!(out, tok.vocab_size() == size0 && vocab0.as_ref().ok() == Some(&vocab), "vocab_size / get_vocab changed after the tokenizer was used ({size0} -> {})", tok.vocab_size());
        let ex = match expect(&c.kind, &c.special, &vocab) {
            Ok(e) => e,
            Err(e) => {
                out.fail(e);
                return out;
            }
        };
        match &c.kind {
            Kind::Byte { pad_to, .. } => {
                out.label("byte");
                out.label_if(pad_to.is_some(), "pad_multiple");
            }
            Kind::Char { .. } => out.label("char"),
            Kind::Bpe { table, .. } => {
                out.label("bpe");
                out.label_if(!table.entries.is_empty(), "bpe_merges");
                out.label_if(ex.regular.len() - 256 < table.entries.len(), "truncated");
            }
        }
        out.label_if(c.special.has_duplicates(), "dup_tokens");
        out.nontrivial = c.special.has_duplicates()
            || c.special.unique_tokens().len() > 4
            || ex.regular.len() > 256
            || out.labels.contains(&"truncated")
            || out.labels.contains(&"pad_multiple");

        let vs = tok.vocab_size();
        let nreg = ex.regular.len();
        ensure!(out, vs == nreg + ex.special.len(), "vocab_size {vs}, expected {nreg} regular + {} special", ex.special.len());
        if let Kind::Byte { pad_to: Some(p), .. } = &c.kind {
            ensure!(out, vs % p == 0 && vs - (256 + c.special.unique_tokens().len()) < *p, "vocab_size {vs} is not the next multiple of pad_to_multiple_of {p}");
        }
        ensure!(out, vocab.len() == vs, "get_vocab has {} entries, vocab_size is {vs}", vocab.len());
        ensure!(out, vocab[..nreg] == ex.regular[..], "regular part of get_vocab differs from the expected tokens");
        // special part
        for (i, t) in ex.special.iter().enumerate() {
            ensure!(out, vocab[nreg + i] == t.as_bytes(), "special id {} holds {:?}, expected {t:?}", nreg + i, String::from_utf8_lossy(&vocab[nreg + i]));
        }
        let distinct: HashSet<&Vec<u8>> = vocab.iter().collect();
        ensure!(out, distinct.len() == vocab.len(), "get_vocab contains the same token under two ids");
        // id -> token
        for id in 0..vs {
            let t = tok.id_to_token(id as u32);
            ensure!(out, t.as_ref() == Some(&vocab[id]), "id_to_token({id}) = {:?} but get_vocab()[{id}] = {:?}", t.map(|b| String::from_utf8_lossy(&b).to_string()), String::from_utf8_lossy(&vocab[id]));
        }
        for id in (vs..vs + 300).chain([u32::MAX as usize, (u32::MAX - 1) as usize]) {
            let t = tok.id_to_token(id as u32);
            ensure!(out, t.is_none(), "id_to_token({id}) = {:?} above vocab_size {vs}", t.map(|b| String::from_utf8_lossy(&b).to_string()));
        }
        // token -> id, single-id decoding
        for (id, t) in vocab.iter().enumerate() {
            if let Ok(s) = std::str::from_utf8(t) {
                let back = tok.token_to_id(s);
                ensure!(out, back == Some(id as u32), "token_to_id({s:?}) = {back:?}, expected {id}");
                if id < nreg {
                    if id % 7 == 3 {
                        // a rejected call right before: decodable ids followed by one outside the vocabulary
                        let _ = tok.de_tokenize(&[(id as u32 + 1) % nreg.max(1) as u32, (vs + 3) as u32], false);
                    }
                    match tok.de_tokenize(&[id as u32], false) {
                        Ok(d) => ensure!(out, d == s, "de_tokenize([{id}]) = {d:?}, token is {s:?}"),
                        Err(e) => {
                            out.fail(format!("de_tokenize([{id}]) failed for UTF-8 token {s:?}: {e}"));
                            return out;
                        }
                    }
                    match tok.de_tokenize(&[id as u32], true) {
                        Ok(d) => ensure!(out, d == s, "de_tokenize([{id}], ignore specials) = {d:?}, token is {s:?}"),
                        Err(e) => {
                            out.fail(format!("de_tokenize([{id}]) failed for UTF-8 token {s:?}: {e}"));
                            return out;
                        }
                    }
                } else {
                    // special: kept -> its spelling, ignored -> nothing
                    match (tok.de_tokenize(&[id as u32], false), tok.de_tokenize(&[id as u32], true)) {
                        (Ok(k), Ok(i)) => ensure!(out, k == s && i.is_empty(), "special id {id}: kept {k:?}, ignored {i:?}, token {s:?}"),
                        (a, b) => {
                            out.fail(format!("de_tokenize of special id {id} failed: {a:?} {b:?}"));
                            return out;
                        }
                    }
                }
            } else {
                // partial UTF-8: must return (Ok or Err), never panic
                let _ = tok.de_tokenize(&[id as u32], false);
            }
        }
        // pad / prefix / suffix ids
        let sid = |t: &String| -> Option<u32> { ex.special.iter().position(|u| u == t).map(|i| (nreg + i) as u32) };
        ensure!(out, Some(tok.pad_token_id()) == sid(&c.special.pad), "pad_token_id {} != id of {:?}", tok.pad_token_id(), c.special.pad);
        let pre: Vec<Option<u32>> = c.special.prefix.iter().map(sid).collect();
        let suf: Vec<Option<u32>> = c.special.suffix.iter().map(sid).collect();
        ensure!(out, tok.prefix_token_ids().iter().map(|i| Some(*i)).collect::<Vec<_>>() == pre, "prefix ids {:?} != {pre:?}", tok.prefix_token_ids());
        ensure!(out, tok.suffix_token_ids().iter().map(|i| Some(*i)).collect::<Vec<_>>() == suf, "suffix ids {:?} != {suf:?}", tok.suffix_token_ids());
        ensure!(out, tok.num_prefix_tokens() == pre.len() && tok.num_suffix_tokens() == suf.len(), "num_prefix/suffix_tokens wrong");
        if let Kind::Char { unk, .. } = &c.kind {
            let want = sid(unk);
            // an out-of-alphabet character must map to the unknown id
            let ids = tok.tokenize("ä", true).map(|t| t.token_ids).unwrap_or_default();
            let body = &ids[pre.len()..ids.len().saturating_sub(suf.len())];
            ensure!(out, body.len() == 1 && Some(body[0]) == want, "unknown id: tokenize(\"ä\") body = {body:?}, expected [{want:?}]");
        }
        out
    }
}
