//! C06 — batching partitions the item stream and respects the batch limit.
use crate::engine::*;
use crate::ensure;
use proptest::prelude::*;
use serde::{Deserialize, Serialize};
use text_utils::data::loading::{BatchLimitType, BatchedIterator, ItemSize};

#[derive(Debug, Clone, Serialize, Deserialize)]
pub struct Case {
    pub sizes: Vec<usize>,
    pub sort: bool,
    pub shuffle: bool,
    pub prefetch: usize,
    pub limit: usize,
    pub padded: bool,
    pub seed: Option<u64>,
    /// the item sizes are `sizes` repeated this many times (0 = once): long streams without long cases
    #[serde(default)]
    pub repeat: usize,
}

impl Case {
    pub fn all_sizes(&self) -> Vec<usize> {
        let mut v = Vec::with_capacity(self.sizes.len() * self.repeat.max(1));
        for _ in 0..self.repeat.max(1) {
            v.extend_from_slice(&self.sizes);
        }
        v
    }
}

pub struct C06;

#[derive(Debug, Clone, PartialEq)]
struct Item {
    id: usize,
    size: usize,
}

impl ItemSize for Item {
    fn size(&self) -> usize {
        self.size
    }
}

fn run(c: &Case) -> Result<Vec<Vec<Item>>, String> {
    let items: Vec<Item> = c.all_sizes().iter().enumerate().map(|(id, size)| Item { id, size: *size }).collect();
    let n = items.len();
    let mut it = items.into_iter().batched(
        c.sort,
        c.shuffle,
        c.prefetch,
        c.limit,
        if c.padded { BatchLimitType::PaddedItemSize } else { BatchLimitType::BatchSize },
        c.seed,
    );
    let mut batches = vec![];
    let mut ended = false;
    for _ in 0..n + 2 {
        beat();
        match it.next() {
            Some(b) => batches.push(b),
            None => {
                ended = true;
                break;
            }
        }
    }
    if !ended {
        return Err(format!("no end of iteration after {} calls to next() for {n} items", n + 2));
    }
    if it.next().is_some() {
        return Err("a batch after the end of the iteration".into());
    }
    Ok(batches)
}

fn measure(items: &[Item], padded: bool) -> usize {
    if padded {
        items.len() * items.iter().map(|i| i.size).max().unwrap_or(0)
    } else {
        items.len()
    }
}

impl Prop for C06 {
    type Case = Case;
    const ID: &'static str = "C06";
    const FUZZ_TARGET: Option<&'static str> = Some("batching");
    const FUZZ_RUNS: u64 = 4000000;
    fn fuzz_decode(bytes: &[u8]) -> Option<Case> {
        crate::fuzzdec::c06(bytes)
    }
    const RULE: &'static str = "item size vectors (n <= 40, occasionally up to 300, sizes from {0,1,2,3,5,8,L-1,L,L+1,3L} and all-equal vectors) x sort x shuffle x prefetch_factor 0..=5 x batch_limit in 0..=16 or 64 x {BatchSize, PaddedItemSize} x seed (Some, occasionally None); one case in 4000 is a stream of 51000-96000 items (a 30-40 item pattern repeated) with a prefetch budget above 2^16. Oracle: end of iteration within n+2 calls, batches partition the ids, no empty batch, every batch with > 1 item within the limit, same seed => same batches; without sort/shuffle the concatenation is the input order and every batch but the last is greedy-maximal. Non-trivial: >= 2 batches and (an oversized or zero-size item, or sort+shuffle with a buffer shorter than three batches). Distinct = distinct serialised case.";
    const CLAIMS_TERMINATION: bool = true;
    const HANG_SECS: u64 = 20;
    const ESSENTIAL: &'static [&'static str] = &["plain", "sort", "shuffle", "sort+shuffle", "oversized", "zero_size", "padded", "batch_size", "limit_0", "seed_none", "no_fitting_subsequence", "more_than_65536_items"];

    fn budget(tier: Tier) -> Budget {
        match tier {
            Tier::Quick => Budget { cases: 60000, shards: 16 },
            Tier::Thorough => Budget { cases: 5760000, shards: 16 },
        }
    }

    fn strategy(_tier: Tier, _shard: u32) -> BoxedStrategy<Case> {
        // long streams: more items than any plausible internal buffer or counter (> 2^16), with a
        // prefetch budget that lets the sort/shuffle buffer grow beyond 2^16 as well
        let huge = (
            proptest::collection::vec(prop_oneof![3 => Just(1usize), 1 => Just(2usize), 1 => Just(0usize), 1 => Just(7usize)], 30..=40),
            any::<bool>(),
            any::<bool>(),
            prop_oneof![Just((20000usize, 4usize)), Just((70000usize, 1usize)), Just((16usize, 2usize)), Just((300usize, 300usize))],
            0u64..8,
            1700usize..=2400,
        )
            .prop_map(|(sizes, sort, shuffle, (limit, prefetch), seed, repeat)| Case { sizes, sort, shuffle, prefetch, limit, padded: false, seed: Some(seed), repeat });
        let usual = prop_oneof![16 => 0usize..=16, 2 => Just(64usize), 1 => 17usize..=300]
            .prop_flat_map(|limit| {
                let l = limit.max(1);
                let size = prop_oneof![
                    2 => Just(0usize),
                    4 => Just(1usize),
                    2 => Just(2usize),
                    2 => Just(3usize),
                    1 => Just(5usize),
                    1 => Just(8usize),
                    1 => Just(l.saturating_sub(1)),
                    1 => Just(l),
                    1 => Just(l + 1),
                    1 => Just(3 * l),
                ];
                let sizes = prop_oneof![
                    12 => proptest::collection::vec(size.clone(), 0..=40),
                    1 => proptest::collection::vec(size.clone(), 41..=300),
                    1 => (size, 0usize..=40).prop_map(|(s, n)| vec![s; n]),
                ];
                (
                    sizes,
                    any::<bool>(),
                    any::<bool>(),
                    0usize..=5,
                    any::<bool>(),
                    prop_oneof![9 => (0u64..8).prop_map(Some), 1 => Just(None)],
                )
                    .prop_map(move |(sizes, sort, shuffle, prefetch, padded, seed)| Case {
                        sizes,
                        sort,
                        shuffle,
                        prefetch,
                        limit,
                        padded,
                        seed,
                        repeat: 0,
                    })
            });
        prop_oneof![4000 => usual, 1 => huge].boxed()
    }

    fn assumptions() -> Vec<String> {
        vec![
            "batch_limit 0 and prefetch_factor 0 are clamped to 1 (constructor behaviour, stated in the quantifier as >= 0)".into(),
            "with seed None only the seed-independent parts are asserted".into(),
        ]
    }

    fn check(c: &Case, _strict: bool) -> Outcome {
        let mut out = Outcome::new();
        let all = c.all_sizes();
        let c = &Case { sizes: all, repeat: 0, ..c.clone() };
        let n = c.sizes.len();
        let l = c.limit.max(1);
        out.label_if(n > 65536, "more_than_65536_items");
        out.label(match (c.sort, c.shuffle) {
            (false, false) => "plain",
            (true, false) => "sort",
            (false, true) => "shuffle",
            (true, true) => "sort+shuffle",
        });
        out.label(if c.padded { "padded" } else { "batch_size" });
        out.label_if(c.limit == 0, "limit_0");
        out.label_if(c.seed.is_none(), "seed_none");
        let oversized = c.padded && c.sizes.iter().any(|s| *s > l);
        out.label_if(oversized, "oversized");
        out.label_if(c.padded && c.sizes.contains(&0), "zero_size");
        out.label_if(c.sort && c.shuffle && c.padded && n >= 2 && c.sizes.iter().all(|s| *s > l), "no_fitting_subsequence");
        let batches = match run(c) {
            Ok(b) => b,
            Err(e) => {
                out.fail(e);
                return out;
            }
        };
        out.nontrivial = batches.len() >= 2
            && (oversized || (c.padded && c.sizes.contains(&0)) || (c.sort && c.shuffle && n < 3 * l * c.prefetch.max(1) + 3));
        // partition
        let mut seen = vec![0usize; n];
        for (bi, b) in batches.iter().enumerate() {
            ensure!(out, !b.is_empty(), "batch {bi} is empty");
            for it in b {
                ensure!(out, it.id < n && c.sizes[it.id] == it.size, "batch {bi} contains an unknown item {it:?}");
                seen[it.id] += 1;
            }
            if b.len() > 1 {
                let m = measure(b, c.padded);
                ensure!(out, m <= l, "batch {bi} has {} items with measure {m} > limit {l}: sizes {:?}", b.len(), b.iter().map(|i| i.size).collect::<Vec<_>>());
            }
        }
        if let Some(bad) = seen.iter().position(|s| *s != 1) {
            let shown: Vec<usize> = seen.iter().copied().take(64).collect();
            out.fail(format!("items are not in exactly one batch each: item {bad} occurs {} times (occurrence counts of the first items: {shown:?})", seen[bad]));
            return out;
        }
        // determinism
        if c.seed.is_some() {
            match run(c) {
                Ok(b2) => ensure!(out, b2 == batches, "same seed, different batches"),
                Err(e) => {
                    out.fail(e);
                    return out;
                }
            }
        }
        if !c.sort && !c.shuffle {
            let flat: Vec<usize> = batches.iter().flatten().map(|i| i.id).collect();
            ensure!(out, flat == (0..n).collect::<Vec<_>>(), "without sort/shuffle the concatenation of the batches is not the input order: {:?}", &flat[..flat.len().min(64)]);
            for k in 0..batches.len().saturating_sub(1) {
                let mut ext = batches[k].clone();
                ext.push(batches[k + 1][0].clone());
                let m = measure(&ext, c.padded);
                ensure!(out, m > l, "batch {k} is not greedy-maximal: the next item would still fit (measure {m} <= limit {l})");
            }
        }
        out
    }
}
