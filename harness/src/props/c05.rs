//! C05 — the threaded pipeline is observationally a sequential map, under every schedule.
use crate::engine::*;
use crate::sched::*;
use proptest::prelude::*;
use serde::{Deserialize, Serialize};
use std::sync::atomic::{AtomicUsize, Ordering};
use std::sync::Arc;
use std::time::Duration;
use text_utils::data::loading::PipelineIterator;
use text_utils::verif::Controller;

#[derive(Debug, Clone, Serialize, Deserialize)]
pub enum Sched {
    /// generated choice indices, mapped monotonically onto the enabled set
    Choices(Vec<u16>),
    /// exact indices into the enabled set (bounded-preemption enumeration)
    Exact(Vec<u8>),
    /// PCT: priorities for consumer + workers and priority change points (step numbers)
    Pct { prio: Vec<u16>, changes: Vec<u16> },
    /// real threads, chaos controller, per-item processing delays in microseconds
    Real {
        delays: Vec<u16>,
        chaos: u64,
        /// one item that takes this many milliseconds ("for every relative processing speed")
        #[serde(default)]
        slow: Option<(usize, u16)>,
        /// the consumer waits this many microseconds after each item (back-pressure)
        #[serde(default)]
        consumer_us: u16,
        /// the input iterator takes this many microseconds per item (slow source)
        #[serde(default)]
        upstream_us: u16,
        /// after this many items a second threaded pipe is built and read to its end in the same
        /// process, then the first one is read on (0 = no second pipe)
        #[serde(default)]
        second_pipe_after: usize,
    },
}

#[derive(Debug, Clone, Serialize, Deserialize)]
pub struct Case {
    pub t: usize,
    pub n: usize,
    pub sched: Sched,
}

pub struct C05;

pub struct Chooser<'a> {
    sched: &'a Sched,
    pos: usize,
    prio: Vec<u32>,
}

impl<'a> Chooser<'a> {
    pub fn new(sched: &'a Sched, t: usize) -> Self {
        let prio = match sched {
            Sched::Pct { prio, .. } => (0..=t).map(|i| 1000 + *prio.get(i).unwrap_or(&0) as u32).collect(),
            _ => vec![],
        };
        Chooser { sched, pos: 0, prio }
    }

    fn actor_slot(a: Actor) -> usize {
        match a {
            Actor::Consumer => 0,
            Actor::Worker(w) => w + 1,
        }
    }

    pub fn choose(&mut self, enabled: &[Actor], last: Option<Actor>, step: usize) -> Actor {
        let default = |last: Option<Actor>| -> Actor {
            match last {
                Some(l) if enabled.contains(&l) => l,
                _ => enabled[0],
            }
        };
        match self.sched {
            Sched::Choices(v) => {
                let a = match v.get(self.pos) {
                    Some(c) => enabled[idx16(*c, enabled.len())],
                    None => default(last),
                };
                self.pos += 1;
                a
            }
            Sched::Exact(v) => {
                let a = match v.get(self.pos) {
                    Some(c) => enabled[(*c as usize).min(enabled.len() - 1)],
                    None => default(last),
                };
                self.pos += 1;
                a
            }
            Sched::Pct { changes, .. } => {
                let a = *enabled.iter().max_by_key(|a| self.prio[Self::actor_slot(**a)]).unwrap();
                if changes.iter().any(|c| *c as usize == step) {
                    // demote the actor that is about to run
                    let low = self.prio.iter().copied().min().unwrap_or(1);
                    self.prio[Self::actor_slot(a)] = low.saturating_sub(1);
                    return *enabled.iter().max_by_key(|a| self.prio[Self::actor_slot(**a)]).unwrap();
                }
                a
            }
            Sched::Real { .. } => enabled[0],
        }
    }
}

pub struct RunInfo {
    pub classes: Vec<&'static str>,
    pub choices: Vec<(usize, usize, bool)>, // (chosen index, #enabled, was the last actor still enabled)
    pub steps: usize,
}

/// run one controlled schedule to the end and check the sequential-map oracle after every step
pub fn run_controlled(t: usize, n: usize, sched: &Sched) -> Result<RunInfo, String> {
    let mut run = PipeRun::new(t, n)?;
    let mut chooser = Chooser::new(sched, t);
    let limit = 60 * (n + t) + 400;
    let mut choices = vec![];
    let res: Result<(), String> = (|| {
        loop {
            if run.ended {
                break;
            }
            let en = run.enabled();
            if en.is_empty() {
                return Err(format!(
                    "deadlock: no actor can make progress although the stream has not ended (received {} of {n}, workers {:?})",
                    run.received.len(),
                    run.ctrl.snapshot()
                ));
            }
            let a = chooser.choose(&en, run.last, run.steps);
            let last_enabled = run.last.is_some_and(|l| en.contains(&l));
            choices.push((en.iter().position(|x| *x == a).unwrap(), en.len(), last_enabled));
            run.step(a, &en)?;
            // oracle: received is a prefix of the sequential map
            for (k, it) in run.received.iter().enumerate() {
                if *it != (k, f_of(k)) {
                    return Err(format!("item {k} of the output is {it:?}, the sequential map gives {:?} (received so far {:?})", (k, f_of(k)), run.received));
                }
            }
            if run.received.len() > n {
                return Err(format!("{} items received for {n} inputs", run.received.len()));
            }
            for (i, c) in run.calls.iter().enumerate() {
                let c = c.load(Ordering::SeqCst);
                if c > 1 {
                    return Err(format!("input {i} processed {c} times"));
                }
            }
            if run.steps > limit {
                return Err(format!("no end of the stream after {limit} scheduling steps (received {} of {n})", run.received.len()));
            }
        }
        if run.received.len() != n {
            return Err(format!("stream ended after {} of {n} items", run.received.len()));
        }
        for (i, c) in run.calls.iter().enumerate() {
            let c = c.load(Ordering::SeqCst);
            if c != 1 {
                return Err(format!("input {i} processed {c} times"));
            }
        }
        // after the end: every worker has left its loop
        if !run.ctrl.wait_quiescent(Duration::from_secs(5)) || !run.all_exited() {
            // let parked workers run to their exit (they only have the final ticket take left)
            for _ in 0..4 * (t + 1) {
                let en: Vec<Actor> = run.enabled().into_iter().filter(|a| *a != Actor::Consumer).collect();
                if en.is_empty() {
                    break;
                }
                run.step(en[0], &en)?;
            }
        }
        if !run.all_exited() {
            return Err(format!("stream ended but not all workers exited: {:?}", run.ctrl.snapshot()));
        }
        Ok(())
    })();
    let info = RunInfo {
        classes: run.classes.clone(),
        choices,
        steps: run.steps,
    };
    run.finish();
    res.map(|_| info)
}

#[allow(clippy::too_many_arguments)]
fn run_real(t: usize, n: usize, delays: &[u16], chaos: u64, slow: Option<(usize, u16)>, consumer_us: u16, upstream_us: u16, second_pipe_after: usize) -> Result<(), String> {
    let calls: Arc<Vec<AtomicUsize>> = Arc::new((0..n).map(|_| AtomicUsize::new(0)).collect());
    let calls2 = calls.clone();
    let delays: Vec<u16> = if delays.is_empty() { vec![0] } else { delays.to_vec() };
    let pipeline: text_utils::data::Pipeline<usize, Item> = Arc::new(move |x: usize| {
        calls2[x].fetch_add(1, Ordering::SeqCst);
        let d = delays[x % delays.len()];
        if d > 0 {
            std::thread::sleep(Duration::from_micros(d as u64));
        }
        if let Some((i, ms)) = slow {
            if x == i {
                std::thread::sleep(Duration::from_millis(ms as u64));
            }
        }
        (x, f_of(x))
    });
    text_utils::verif::install(Some(Chaos::new(chaos) as Arc<dyn Controller>));
    let source = (0..n).inspect(move |_| {
        if upstream_us > 0 {
            std::thread::sleep(Duration::from_micros(upstream_us as u64));
        }
    });
    let pipe = source.pipe(pipeline, t as u8);
    text_utils::verif::install(None);
    install_panic_hook();
    let mut got = vec![];
    for it in pipe {
        beat();
        if consumer_us > 0 {
            std::thread::sleep(Duration::from_micros(consumer_us as u64));
        }
        got.push(it);
        if second_pipe_after > 0 && got.len() == second_pipe_after {
            // two pipes alive at the same time: the second one is built and drained while the
            // first is half read
            let id: text_utils::data::Pipeline<usize, usize> = Arc::new(|x| x + 1);
            let other: Vec<usize> = (0..7usize).pipe(id, t.max(1) as u8).collect();
            install_panic_hook();
            if other != (1..8usize).collect::<Vec<_>>() {
                return Err(format!("a second pipe built while the first was half read gave {other:?}"));
            }
        }
        if got.len() > n {
            break;
        }
    }
    let want: Vec<Item> = (0..n).map(|x| (x, f_of(x))).collect();
    if got != want {
        let k = got.iter().zip(&want).position(|(a, b)| a != b).unwrap_or(got.len().min(want.len()));
        return Err(format!("real threads (T={t}, n={n}): output differs from the sequential map at position {k}: got {:?}, expected {:?} ({} items received)", got.get(k), want.get(k), got.len()));
    }
    for (i, c) in calls.iter().enumerate() {
        let c = c.load(Ordering::SeqCst);
        if c != 1 {
            return Err(format!("input {i} processed {c} times"));
        }
    }
    Ok(())
}

/// bounded-preemption enumeration (stateless re-execution)
pub fn enumerate(t: usize, n: usize, bound: usize, cap: usize, stats: &mut Stats) -> (usize, bool, Option<(Vec<u8>, String)>) {
    let mut stack: Vec<(Vec<u8>, usize)> = vec![(vec![], 0)];
    let mut execs = 0usize;
    while let Some((prefix, pre_count)) = stack.pop() {
        if execs >= cap {
            return (execs, false, None);
        }
        execs += 1;
        beat();
        let sched = Sched::Exact(prefix.clone());
        let info = match run_controlled(t, n, &sched) {
            Ok(i) => i,
            Err(e) => return (execs, false, Some((prefix, e))),
        };
        let case = Case { t, n, sched };
        let mut o = Outcome::new();
        o.nontrivial = info.classes.contains(&"preempt_in_send_window") || info.classes.contains(&"two_workers_past_compute");
        for c in &info.classes {
            o.label(c);
        }
        o.label("enumerated");
        stats.record(&case, &o);
        // children: deviate at every position >= prefix.len()
        let mut pc = pre_count;
        for (i, (chosen, nen, last_enabled)) in info.choices.iter().enumerate() {
            if i >= prefix.len() {
                for alt in 0..*nen {
                    if alt == *chosen {
                        continue;
                    }
                    // deviating from the default (= continue the last actor) costs a preemption
                    let cost = if *last_enabled { 1 } else { 0 };
                    if pc + cost > bound {
                        continue;
                    }
                    let mut p: Vec<u8> = info.choices[..i].iter().map(|c| c.0 as u8).collect();
                    p.push(alt as u8);
                    stack.push((p, pc + cost));
                }
            } else if *last_enabled && i > 0 {
                // a prefix choice that was a preemption is already counted in pre_count
            }
            let _ = &mut pc;
        }
    }
    (execs, true, None)
}

impl Prop for C05 {
    type Case = Case;
    const ID: &'static str = "C05";
    const RULE: &'static str = "T in 0..=4 (occasionally up to 8; real threads up to 16) worker threads x n in 0..=12 (occasionally up to 40) inputs x a generated schedule: (a) a vector of <= 400 choices over the enabled actors (consumer, workers parked at the hook points ticket/compute/turn-spin/send/advance/exit), completed non-preemptively, (b) a PCT schedule (random priorities + <= 3 priority change points), (c) thorough tier: every schedule with <= 2 preemptions for T <= 3, n <= 4 (stateless re-execution, reported as `enumerated`), (d) real threads with a chaos controller and generated per-item delays, optionally a slow consumer (<= 0.4 ms per item: back-pressure) and/or a slow input iterator (<= 0.2 ms per item), in one run of four with a second threaded pipe built and drained while the first is half read (n <= 200), or 2000-6000 items without delays (contention on the ticket lock), or one item that takes 1.3 / 2.7 s while all others are instant. The serialising controller runs exactly one actor at a time. Oracle after every step: the received sequence is a prefix of f(x0), f(x1), ...; no input processed twice; at the end every input processed exactly once, next() returns None, all workers reached their exit point; no deadlock. Non-trivial: the schedule preempts a worker between `before send` and `turn advanced`, or two workers are past compute at the same time. Distinct = distinct serialised case.";
    const CLAIMS_TERMINATION: bool = true;
    const HANG_SECS: u64 = 30;
    const ESSENTIAL: &'static [&'static str] = &["preempt_in_send_window", "two_workers_past_compute", "out_of_order_compute", "channel_full", "T=0", "n<T", "pct", "choices", "real", "slow_item", "slow_consumer", "slow_source", "two_live_pipes"];

    fn budget(tier: Tier) -> Budget {
        match tier {
            Tier::Quick => Budget { cases: 400, shards: 16 },
            Tier::Thorough => Budget { cases: 20_000, shards: 16 },
        }
    }

    fn strategy(_tier: Tier, _shard: u32) -> BoxedStrategy<Case> {
        let controlled = (
            prop_oneof![2 => Just(0usize), 6 => Just(1usize), 12 => Just(2usize), 10 => Just(3usize), 6 => Just(4usize), 1 => 5usize..=8],
            prop_oneof![12 => 0usize..=12, 1 => 13usize..=40],
            prop_oneof![
                5 => proptest::collection::vec(any::<u16>(), 0..=400).prop_map(Sched::Choices),
                2 => (proptest::collection::vec(any::<u16>(), 5), proptest::collection::vec(0u16..120, 0..=3)).prop_map(|(prio, changes)| Sched::Pct { prio, changes }),
            ],
        )
            .prop_map(|(t, n, sched)| Case { t, n, sched });
        let real = (prop_oneof![8 => 0usize..=4, 1 => 5usize..=16], prop_oneof![3 => 0usize..=200, 1 => 2000usize..=6000], proptest::collection::vec(prop_oneof![3 => Just(0u16), 2 => 0u16..300], 1..=8), any::<u64>(),
            prop_oneof![3 => Just((0u16, 0u16)), 1 => (0u16..400, Just(0u16)), 1 => (Just(0u16), 0u16..200), 1 => (0u16..200, 0u16..200)])
            .prop_map(|(t, n, delays, chaos, speeds)| if n > 200 { (t, n, vec![0u16], chaos, (0, 0)) } else { (t, n, delays, chaos, speeds) })
            .prop_map(|(t, n, delays, chaos, (consumer_us, upstream_us))| Case { t, n, sched: Sched::Real { delays, chaos, slow: None, consumer_us, upstream_us, second_pipe_after: if chaos % 4 == 0 && n >= 2 { 1 + (chaos as usize / 4) % (n - 1) } else { 0 } } });
        // one very slow item: a consumer-side or worker-side timeout must not end or reorder the stream
        let slow = (1usize..=4, 2usize..=16, any::<u16>(), proptest::sample::select(vec![1300u16, 2700]), any::<u64>())
            .prop_map(|(t, n, i, ms, chaos)| Case { t, n, sched: Sched::Real { delays: vec![0], chaos, slow: Some((idx16(i, n), ms)), consumer_us: 0, upstream_us: 0, second_pipe_after: 0 } });
        prop_oneof![240 => controlled, 20 => real, 1 => slow].boxed()
    }

    fn assumptions() -> Vec<String> {
        vec![
            "interleavings are explored at the granularity of the hook points (ticket take under the mutex, compute, turn check, send, turn advance, exit), sequentially consistent; std::sync::mpsc, Mutex and the SeqCst atomics are the trusted base".into(),
            "the scheduler's channel-occupancy model only prunes choices that would block; verdicts come from the output/counter oracle, deadlock, and the watchdog".into(),
            "exhaustive enumeration only under the stated preemption bound and size; `exhaustive` is reported per (T, n, bound) in coverage.extra".into(),
        ]
    }

    fn check(c: &Case, _strict: bool) -> Outcome {
        let mut out = Outcome::new();
        out.label_if(c.t == 0, "T=0");
        out.label_if(c.n < c.t, "n<T");
        match &c.sched {
            Sched::Real { delays, chaos, slow, consumer_us, upstream_us, second_pipe_after } => {
                out.label("real");
                out.label_if(slow.is_some(), "slow_item");
                out.label_if(*consumer_us > 0, "slow_consumer");
                out.label_if(*upstream_us > 0, "slow_source");
                out.label_if(*second_pipe_after > 0, "two_live_pipes");
                out.nontrivial = c.t >= 2 && c.n >= 2 * c.t && delays.iter().any(|d| *d > 0);
                if let Err(e) = run_real(c.t, c.n, delays, *chaos, *slow, *consumer_us, *upstream_us, *second_pipe_after) {
                    out.fail(e);
                }
            }
            s => {
                out.label(match s {
                    Sched::Choices(_) => "choices",
                    Sched::Exact(_) => "exact",
                    _ => "pct",
                });
                match run_controlled(c.t, c.n, s) {
                    Ok(info) => {
                        for cl in &info.classes {
                            out.label(cl);
                        }
                        out.nontrivial = info.classes.contains(&"preempt_in_send_window") || info.classes.contains(&"two_workers_past_compute");
                    }
                    Err(e) => out.fail(format!("T={} n={}: {e}", c.t, c.n)),
                }
            }
        }
        out
    }

    fn extra_stage(tier: Tier, shard: u32, stats: &mut Stats) -> Option<(serde_json::Value, String)> {
        // shards 0..: one (T, n) configuration each
        let configs: &[(usize, usize, usize, usize)] = match tier {
            Tier::Quick => &[(2, 2, 1, 3000), (2, 3, 1, 3000), (3, 3, 1, 3000), (1, 3, 2, 3000)],
            Tier::Thorough => &[(2, 2, 2, 400_000), (2, 3, 2, 400_000), (2, 4, 2, 400_000), (3, 3, 2, 400_000), (3, 4, 2, 400_000), (3, 2, 2, 400_000), (1, 4, 2, 400_000), (2, 4, 3, 400_000)],
        };
        let (t, n, bound, cap) = *configs.get(shard as usize)?;
        let (execs, complete, fail) = enumerate(t, n, bound, cap, stats);
        stats.extra.insert(
            format!("enumeration_T{t}_n{n}_preemptions<={bound}"),
            serde_json::json!({"executions": execs, "exhaustive_for_this_bound": complete}),
        );
        fail.map(|(prefix, msg)| {
            (
                serde_json::to_value(Case { t, n, sched: Sched::Exact(prefix) }).unwrap(),
                format!("T={t} n={n} (bounded-preemption enumeration): {msg}"),
            )
        })
    }
}
