//! C20 — dictionary creation counts exactly, keeps the top entries, for any thread count.
use super::common::work_dir;
use crate::engine::*;
use crate::ensure;
use crate::gen;
use crate::model;
use proptest::prelude::*;
use proptest::sample::select;
use serde::{Deserialize, Serialize};
use std::collections::{BTreeMap, HashMap};
use text_utils::dictionary::{Dictionary, DictionaryDistanceMeasure};
use text_utils::text::{clean, split_words};
use text_utils::unicode::{normalize, Normalization};

#[derive(Debug, Clone, Serialize, Deserialize)]
pub struct Case {
    pub files: Vec<Vec<String>>,
    pub max_size: Option<usize>,
    pub max_sequences: Option<usize>,
    pub threads: u8,
    /// 0 words, 1 chars(1), 3 chars(3), 2 = invalid char_grams
    pub mode: u8,
    /// every word is [a-z]+ and separators are single spaces: the oracle needs no crate helper
    pub plain: bool,
    pub queries: Vec<String>,
    /// this many distinct one-off filler words (100 per line) are inserted after the first line of
    /// the first file (0 = none): more distinct entries than 2^16 while counting
    #[serde(default)]
    pub filler: usize,
}

fn filler_word(mut i: usize) -> String {
    // [a-z]+ only, so that the plain profile stays plain; never collides with the vocabularies
    let mut w = String::from("zq");
    loop {
        w.push((b'a' + (i % 26) as u8) as char);
        i /= 26;
        if i == 0 {
            break;
        }
    }
    w.push('q');
    w
}

pub struct C20;

const VOCAB: &[&str] = &[
    "the", "cat", "Cat", "a", "unit-test", "it's", "fish.", "(fish)", "42", "x1", "über", "ﬁsh", "中文", "e\u{301}t", "a_b", "don't", "cat,", "!?", "x\u{301}y", "o👍🏽k", gen::GIANT,
    // characters that a text format for save/load could mistake for syntax
    "#tag", "c#", "##", ";x", "//", "\"q\"", "a:b", "%",
];
const PLAIN: &[&str] = &["the", "cat", "a", "fish", "bat", "cab", "at", "th"];
const ASCII_PUNCT: &str = "!\"#%&'()*,-./:;?@[\\]_{}";

fn lines(plain: bool) -> BoxedStrategy<Vec<Vec<String>>> {
    let vocab: &'static [&'static str] = if plain { PLAIN } else { VOCAB };
    let sep = if plain {
        Just(" ".to_string()).boxed()
    } else {
        prop_oneof![4 => Just(" ".to_string()), 1 => gen::ws_run(1, 2)].boxed()
    };
    let line = proptest::collection::vec((select(vocab), sep), 0..=6).prop_map(move |ws| {
        let mut s = String::new();
        for (i, (w, sep)) in ws.iter().enumerate() {
            if i > 0 {
                s.push_str(sep);
            }
            s.push_str(w);
        }
        // lines are read with BufRead::lines: no line breaks inside a line
        s.replace(['\n', '\r'], " ")
    });
    prop_oneof![
        12 => proptest::collection::vec(proptest::collection::vec(line.clone(), 0..=8), 1..=3),
        1 => proptest::collection::vec(proptest::collection::vec(line, 0..=40), 1..=5),
    ]
    .boxed()
}

fn is_alpha_or_punct(s: &str) -> bool {
    s.chars().all(char::is_alphabetic) || s.chars().all(|c| ASCII_PUNCT.contains(c))
}

/// expected token counts of one (already normalised) line
fn line_tokens(line: &str, mode: u8, plain: bool) -> Vec<String> {
    let mut toks = vec![];
    if mode == 0 {
        if plain {
            toks.extend(line.split(' ').filter(|w| !w.is_empty()).map(str::to_string));
        } else {
            for (_, parts) in split_words(line) {
                if let Some(parts) = parts {
                    toks.extend(parts.into_iter().map(|(s, _)| s.to_string()));
                }
            }
        }
    } else {
        let k = mode as usize;
        for word in line.split_whitespace() {
            let mut chars: Vec<&str> = vec![];
            if k > 1 {
                chars.push("<bow>");
            }
            chars.extend(gen::clusters(word, true));
            if k > 1 {
                chars.push("<eow>");
            }
            for w in chars.windows(k) {
                if is_alpha_or_punct(w[k / 2]) {
                    toks.push(w.join(" "));
                }
            }
        }
    }
    toks
}

fn snapshot(d: &Dictionary) -> BTreeMap<String, usize> {
    d.items().map(|(k, v)| (k.clone(), *v)).collect()
}

impl Prop for C20 {
    type Case = Case;
    const ID: &'static str = "C20";
    const RULE: &'static str = "1-3 files x 0-8 lines over a small vocabulary with punctuation, digits, hyphens, apostrophes, mixed case, NFKC-expanding and multi-byte words and unclean separators (general profile) or plain [a-z]+ words with single spaces (independent profile) x max_size in {None, 0, 1, 2, |V|-1, |V|, |V|+5} x max_sequences in {None, 0, 1, total-1, total+3} x num_threads 0..=4 x {words, chars(1), chars(3), invalid char_grams} x query strings near the vocabulary. Oracle: sequential recount, top-k validity predicate, freq_sum, equality across thread counts, save/load round trip, get_closest minimal-distance / maximal-frequency predicate with the C12 reference distance. Non-trivial: >= 3 distinct entries, a frequency tie at the cut, >= 2 threads. Distinct = distinct serialised case.";
    const ESSENTIAL: &'static [&'static str] = &["max_size_none", "max_size_0", "cut", "tie_at_cut", "words", "chars1", "chars3", "invalid_char_grams", "threads>1", "plain", "max_sequences", "closest", "more_than_65536_distinct_entries"];

    fn budget(tier: Tier) -> Budget {
        match tier {
            Tier::Quick => Budget { cases: 250, shards: 16 },
            Tier::Thorough => Budget { cases: 12_000, shards: 16 },
        }
    }

    fn strategy(_tier: Tier, _shard: u32) -> BoxedStrategy<Case> {
        any::<bool>()
            .prop_flat_map(|plain| {
                (
                    lines(plain),
                    0u8..7,
                    any::<u16>(),
                    0u8..5,
                    any::<u16>(),
                    prop_oneof![12 => 0u8..=4, 1 => 5u8..=9],
                    prop_oneof![5 => Just(0u8), 2 => Just(1u8), 2 => Just(3u8), 1 => Just(2u8)],
                    proptest::collection::vec(
                        prop_oneof![
                            select(VOCAB).prop_map(str::to_string),
                            select(PLAIN).prop_map(str::to_string),
                            "[a-c ]{0,4}",
                            gen::text(2),
                        ],
                        0..=3,
                    ),
                )
                    .prop_map(move |(files, ms_kind, ms_r, mq_kind, _mq_r, threads, mode, queries)| {
                        let total: usize = files.iter().map(|f| f.len()).sum();
                        // |V| is only known after counting; encode relative choices via a guess
                        let distinct_guess = {
                            let mut v: Vec<&str> = files.iter().flatten().flat_map(|l| l.split_whitespace()).collect();
                            v.sort();
                            v.dedup();
                            v.len()
                        };
                        let max_size = match ms_kind {
                            0 | 1 => None,
                            2 => Some(0),
                            3 => Some(1),
                            4 => Some(2),
                            5 => Some(idx16(ms_r, distinct_guess + 1)),
                            _ => Some(distinct_guess + 5),
                        };
                        let max_sequences = match mq_kind {
                            0 | 1 => None,
                            2 => Some(0),
                            3 => Some(total.saturating_sub(1)),
                            _ => Some(total + 3),
                        };
                        // plain profile is about word counting
                        let mode = if plain && mode == 2 { 0 } else { mode };
                        Case { files, max_size, max_sequences, threads, mode, plain, queries, filler: 0 }
                    })
            })
            .prop_flat_map(|c| {
                // one case in 300: more than 2^16 distinct entries with a small max_size
                prop_oneof![
                    300 => Just(c.clone()),
                    1 => (66000usize..=70000, select(vec![1usize, 3, 1000])).prop_map(move |(filler, k)| Case {
                        filler,
                        max_size: Some(k),
                        max_sequences: None,
                        mode: 0,
                        queries: vec![],
                        ..c.clone()
                    }),
                ]
            })
            .boxed()
    }

    fn assumptions() -> Vec<String> {
        vec![
            "general profile: cleaning and NFKC normalisation of a line are computed independently (split/join, per-cluster unicode-normalization) unless the line has a cluster mixing whitespace with other code points; the line -> token map uses the crate's public split_words(); plain profile: words are [a-z]+ separated by single spaces and the oracle is fully independent".into(),
            "character n-gram centre filter: alphabetic (std) or ASCII punctuation of Unicode category P (the generator only produces ASCII non-letters)".into(),
            "identical results across thread counts are asserted as equal (word, frequency) maps (the statement says identical)".into(),
            "get_closest: distance = C12 reference (grapheme clusters, no swap) to normalize(q, NFKC)".into(),
        ]
    }

    fn check(c: &Case, _strict: bool) -> Outcome {
        let mut out = Outcome::new();
        let dir = work_dir();
        let with_filler;
        let c = if c.filler > 0 {
            out.label("more_than_65536_distinct_entries");
            let mut files = c.files.clone();
            if files.is_empty() {
                files.push(vec![]);
            }
            let at = files[0].len().min(1);
            let mut block = vec![];
            let words: Vec<String> = (0..c.filler).map(filler_word).collect();
            for ch in words.chunks(100) {
                block.push(ch.join(" "));
            }
            files[0].splice(at..at, block);
            with_filler = Case { files, filler: 0, ..c.clone() };
            &with_filler
        } else {
            c
        };
        let mut paths = vec![];
        for (i, lines) in c.files.iter().enumerate() {
            let p = dir.join(format!("c20-{i}.txt"));
            let mut s = String::new();
            for l in lines {
                s.push_str(l);
                s.push('\n');
            }
            std::fs::write(&p, s).expect("write corpus");
            paths.push(p);
        }
        let (use_chars, grams) = match c.mode {
            0 => (false, 1u8),
            m => (true, m),
        };
        out.label(match c.mode {
            0 => "words",
            1 => "chars1",
            3 => "chars3",
            _ => "invalid_char_grams",
        });
        out.label_if(c.plain, "plain");
        out.label_if(c.threads > 1, "threads>1");
        out.label_if(c.max_size.is_none(), "max_size_none");
        out.label_if(c.max_size == Some(0), "max_size_0");
        out.label_if(c.max_sequences.is_some(), "max_sequences");
        let r = Dictionary::create(&paths, c.max_size, c.max_sequences, c.threads, use_chars, grams, false);
        if c.mode == 2 {
            ensure!(out, r.is_err(), "char_grams = 2 accepted");
            return out;
        }
        let d = match r {
            Ok(d) => d,
            Err(e) => {
                out.fail(format!("Dictionary::create failed: {e}"));
                return out;
            }
        };
        // expected counts
        let mut counts: HashMap<String, usize> = HashMap::new();
        let all_lines: Vec<&String> = c.files.iter().flatten().collect();
        for l in all_lines.iter().take(c.max_sequences.unwrap_or(usize::MAX)) {
            let nl = if c.plain {
                (*l).clone()
            } else if model::mixed_free(l) {
                // independent of the crate's helpers where cluster-wise and code-point-wise cleaning agree
                model::normalize_model(&model::clean_model(l), 2)
            } else {
                normalize(&clean(l, true), Normalization::NFKC, true)
            };
            for t in line_tokens(&nl, c.mode, c.plain) {
                *counts.entry(t).or_insert(0) += 1;
            }
        }
        let v = counts.len();
        let want_len = c.max_size.unwrap_or(usize::MAX).min(v);
        let got = snapshot(&d);
        ensure!(out, d.len() == got.len(), "len() {} != number of items {}", d.len(), got.len());
        ensure!(out, got.len() == want_len, "dictionary has {} entries, expected min(max_size, |V|) = {want_len} (|V| = {v}, max_size {:?})", got.len(), c.max_size);
        for (w, f) in &got {
            ensure!(out, counts.get(w) == Some(f), "entry {w:?} has frequency {f}, recount gives {:?}", counts.get(w));
        }
        let min_kept = got.values().copied().min().unwrap_or(usize::MAX);
        let max_omitted = counts.iter().filter(|(w, _)| !got.contains_key(*w)).map(|(_, f)| *f).max().unwrap_or(0);
        ensure!(out, got.is_empty() || max_omitted <= min_kept, "an omitted entry (frequency {max_omitted}) is more frequent than a kept one ({min_kept})");
        ensure!(out, d.freq_sum == got.values().sum::<usize>(), "freq_sum {} != sum of kept frequencies {}", d.freq_sum, got.values().sum::<usize>());
        out.label_if(want_len < v, "cut");
        let tie = want_len < v && want_len > 0 && max_omitted == min_kept;
        out.label_if(tie, "tie_at_cut");
        out.nontrivial = v >= 3 && c.threads >= 2 && (tie || want_len == v);
        // identical for every thread count
        for t in [0u8, 1, 3] {
            if t == c.threads {
                continue;
            }
            match Dictionary::create(&paths, c.max_size, c.max_sequences, t, use_chars, grams, false) {
                Ok(d2) => ensure!(out, snapshot(&d2) == got && d2.freq_sum == d.freq_sum, "result with {t} threads differs from the result with {} threads", c.threads),
                Err(e) => {
                    out.fail(format!("Dictionary::create with {t} threads failed: {e}"));
                    return out;
                }
            }
        }
        // save / load
        let p = dir.join("c20.dict");
        if let Err(e) = d.save(&p) {
            out.fail(format!("save failed: {e}"));
            return out;
        }
        match Dictionary::load(&p) {
            Ok(d2) => ensure!(out, snapshot(&d2) == got && d2.freq_sum == d.freq_sum, "load(save(d)) != d: {:?} vs {got:?}", snapshot(&d2)),
            Err(e) => {
                out.fail(format!("load(save(d)) failed: {e}"));
                return out;
            }
        }
        // get_closest
        for q in &c.queries {
            for (measure, normalised) in [(DictionaryDistanceMeasure::EditDistance, false), (DictionaryDistanceMeasure::NormalizedEditDistance, true)] {
                let r = d.get_closest(q, measure);
                if got.is_empty() {
                    ensure!(out, r.is_none(), "get_closest on an empty dictionary returned {r:?}");
                    continue;
                }
                out.label("closest");
                let Some((term, freq, rel)) = r else {
                    out.fail(format!("get_closest({q:?}) returned None on a non-empty dictionary"));
                    return out;
                };
                ensure!(out, got.get(&term) == Some(&freq), "get_closest returned ({term:?}, {freq}) which is not an entry");
                ensure!(out, (rel - freq as f64 / d.freq_sum as f64).abs() < 1e-12, "relative frequency {rel} wrong");
                let nq = normalize(q, Normalization::NFKC, true);
                let qc = gen::clusters(&nq, true);
                // compare distances as exact rationals (d / max(len))
                let dist = |w: &str| -> (usize, usize) {
                    let wc = gen::clusters(w, true);
                    let dd = model::ref_distance(&qc, &wc, false, false);
                    let m = if normalised { qc.len().max(wc.len()).max(1) } else { 1 };
                    (dd, m)
                };
                let less = |a: (usize, usize), b: (usize, usize)| a.0 * b.1 < b.0 * a.1;
                let equal = |a: (usize, usize), b: (usize, usize)| a.0 * b.1 == b.0 * a.1;
                let mine = dist(&term);
                for (w, f) in &got {
                    let dw = dist(w);
                    ensure!(out, !less(dw, mine), "get_closest({q:?}, normalised={normalised}) = {term:?} at distance {mine:?}, but {w:?} is closer ({dw:?})");
                    if equal(dw, mine) {
                        ensure!(out, *f <= freq, "get_closest({q:?}) = {term:?} (frequency {freq}) but {w:?} is equally close and more frequent ({f})");
                    }
                }
            }
        }
        out
    }
}
