use crate::engine::{meta, PropMeta};

pub mod common;

pub mod c01;
pub mod c02;
pub mod c03;
pub mod c04;
pub mod c05;
pub mod c06;
pub mod c07;
pub mod c08;
pub mod c09;
pub mod c10;
pub mod c11;
pub mod c12;
pub mod c13;
pub mod c14;
pub mod c15;
pub mod c16;
pub mod c17;
pub mod c18;
pub mod c19;
pub mod c20;

pub fn registry() -> Vec<PropMeta> {
    vec![
        meta::<c01::C01>(),
        meta::<c02::C02>(),
        meta::<c03::C03>(),
        meta::<c04::C04>(),
        meta::<c05::C05>(),
        meta::<c06::C06>(),
        meta::<c07::C07>(),
        meta::<c08::C08>(),
        meta::<c09::C09>(),
        meta::<c10::C10>(),
        meta::<c11::C11>(),
        meta::<c12::C12>(),
        meta::<c13::C13>(),
        meta::<c14::C14>(),
        meta::<c15::C15>(),
        meta::<c16::C16>(),
        meta::<c17::C17>(),
        meta::<c18::C18>(),
        meta::<c19::C19>(),
        meta::<c20::C20>(),
    ]
}

/// `tuv child <what> ...`: helper child processes used by some checks (e.g. C09 panic => exit)
pub fn child_entry(args: &[String]) -> i32 {
    match args.first().map(|s| s.as_str()) {
        Some("panic-pipe") => c09::child_panic_pipe(&args[1..]),
        _ => crate::engine::EXIT_INTERNAL,
    }
}
