use crate::{meta, PropMeta};

pub mod c12;

pub fn registry() -> Vec<PropMeta> {
    vec![meta::<c12::C12>()]
}

/// `tuv child <what> ...`: helper child processes used by some checks (e.g. C09 panic => exit)
pub fn child_entry(_args: &[String]) -> i32 {
    crate::engine::EXIT_INTERNAL
}
