//! C09 — abandoning or failing never wedges the loader: bounded lookahead, prompt stop,
//! panic => process exit.
use super::c05::{Chooser, Sched};
use crate::engine::*;
use crate::sched::*;
use proptest::prelude::*;
use serde::{Deserialize, Serialize};
use std::process::{Command, Stdio};
use std::sync::atomic::{AtomicBool, AtomicUsize, Ordering};
use std::sync::{Arc, Mutex};
use std::time::{Duration, Instant};
use text_utils::data::loading::{BufferedIterator, PipelineIterator};
use text_utils::verif::{Controller, Point};

#[derive(Debug, Clone, Serialize, Deserialize)]
pub enum Sub {
    /// controlled schedule: consume k, idle, drop, run workers to quiescence
    Controlled { t: usize, k: usize, upstream: usize, choices: Vec<u16> },
    /// real threads, Pipe
    /// `slow_us`: the upstream takes that long per item; `idle_us`: how long the consumer idles
    /// between its last item and the drop (None = 3 ms), so that the drop can land while a
    /// background thread is in the middle of fetching
    RealPipe { t: usize, k: usize, upstream: usize, chaos: u64, #[serde(default)] slow_us: u64, #[serde(default)] idle_us: Option<u64> },
    /// real threads, Buffered
    RealBuffered { buffer: usize, k: usize, upstream: usize, #[serde(default)] slow_us: u64, #[serde(default)] idle_us: Option<u64> },
    /// child process: worker function panics at item j
    /// `history`: what the process did before the failing pipe was built: 0 nothing, 1 an earlier
    /// pipe consumed to its end, 2 an earlier pipe and then a panic hook installed by the
    /// application, 3 an earlier pipe and then the crate's own train_bpe (which installs a
    /// print-only hook), 4 train_bpe only
    /// `buffered`: the failing pipe is wrapped as `pipe(..).buffered(k)`, the way the loaders compose them
    Panic { t: usize, n: usize, j: usize, #[serde(default)] delay_ms: u64, #[serde(default)] history: u8, #[serde(default)] buffered: Option<usize> },
}

#[derive(Debug, Clone, Serialize, Deserialize)]
pub struct Case {
    pub sub: Sub,
}

pub struct C09;

fn bound_pipe(t: usize) -> usize {
    4 * t + 4
}
fn bound_buffered(b: usize) -> usize {
    2 * b + 4
}

/// upstream that polices the lookahead itself: no timing verdicts
struct Policed {
    next: usize,
    n: usize,
    bound: usize,
    pulled: Arc<AtomicUsize>,
    asked: Arc<AtomicUsize>,
    dropped_flag: Arc<AtomicBool>,
    after_drop: usize,
    violation: Arc<Mutex<Option<String>>>,
    gone: Arc<AtomicBool>,
    slow_us: u64,
}

impl Iterator for Policed {
    type Item = usize;
    fn next(&mut self) -> Option<usize> {
        if self.next >= self.n {
            return None;
        }
        let pulled = self.pulled.fetch_add(1, Ordering::SeqCst) + 1;
        let asked = self.asked.load(Ordering::SeqCst);
        if self.dropped_flag.load(Ordering::SeqCst) {
            self.after_drop += 1;
            if self.after_drop > self.bound {
                let mut v = self.violation.lock().unwrap();
                if v.is_none() {
                    *v = Some(format!("{} items pulled from upstream after the consumer dropped the iterator (bound {}); {pulled} pulled in total, consumer asked for {asked}", self.after_drop, self.bound));
                }
                return None;
            }
        } else if pulled > asked + self.bound {
            let mut v = self.violation.lock().unwrap();
            if v.is_none() {
                *v = Some(format!("{pulled} items pulled from upstream while the consumer asked for {asked}: lookahead exceeds the bound {}", self.bound));
            }
            return None;
        }
        if self.slow_us > 0 {
            // a slow source (a generated speed, not a verdict): the fetch is in progress meanwhile
            std::thread::sleep(Duration::from_micros(self.slow_us));
        }
        self.next += 1;
        Some(self.next - 1)
    }

    // the source knows its length (as ranges, vectors and line counts do): adapters that size
    // their work from the hint must still keep the lookahead independent of it
    fn size_hint(&self) -> (usize, Option<usize>) {
        let left = self.n.saturating_sub(self.next);
        (left, Some(left))
    }
}

impl Drop for Policed {
    fn drop(&mut self) {
        self.gone.store(true, Ordering::SeqCst);
    }
}

fn real_run(pipe_t: Option<usize>, buffer: usize, k: usize, upstream: usize, chaos: u64, slow_us: u64, idle_us: Option<u64>) -> Result<Vec<&'static str>, String> {
    let bound = match pipe_t {
        Some(t) => bound_pipe(t),
        None => bound_buffered(buffer),
    };
    let pulled = Arc::new(AtomicUsize::new(0));
    let asked = Arc::new(AtomicUsize::new(0));
    let dropped_flag = Arc::new(AtomicBool::new(false));
    let violation = Arc::new(Mutex::new(None));
    let gone = Arc::new(AtomicBool::new(false));
    let up = Policed {
        next: 0,
        n: upstream,
        bound,
        pulled: pulled.clone(),
        asked: asked.clone(),
        dropped_flag: dropped_flag.clone(),
        after_drop: 0,
        violation: violation.clone(),
        gone: gone.clone(),
        slow_us,
    };
    let mut classes = vec![];
    text_utils::verif::install(Some(Chaos::new(chaos) as Arc<dyn Controller>));
    let mut it: Box<dyn Iterator<Item = usize>> = match pipe_t {
        Some(t) => {
            let f: text_utils::data::Pipeline<usize, usize> = Arc::new(|x| x);
            Box::new(up.pipe(f, t as u8))
        }
        None => Box::new(up.buffered(buffer)),
    };
    text_utils::verif::install(None);
    install_panic_hook();
    let mut got = 0usize;
    for i in 0..k {
        asked.fetch_add(1, Ordering::SeqCst);
        beat();
        match it.next() {
            Some(x) => {
                if x != i {
                    return Err(format!("item {i} of the stream is {x}"));
                }
                got += 1;
            }
            None => break,
        }
    }
    if got < k.min(upstream) && violation.lock().unwrap().is_none() {
        return Err(format!("stream ended after {got} items, upstream holds {upstream}"));
    }
    // consumer idle: give the background threads room to overrun (finding nothing here is not a verdict)
    let t0 = Instant::now();
    while t0.elapsed() < Duration::from_micros(idle_us.unwrap_or(3000)) {
        std::thread::yield_now();
    }
    if slow_us > 0 && idle_us.is_some_and(|i| i < slow_us) {
        classes.push("drop_during_fetch");
    }
    if pulled.load(Ordering::SeqCst) > got {
        classes.push("lookahead_observed");
    }
    dropped_flag.store(true, Ordering::SeqCst);
    drop(it);
    // every background thread must exit: observed through the upstream iterator's Drop. No
    // heartbeat here - a thread that never exits is reported by the watchdog.
    let unthreaded = pipe_t == Some(0);
    if !unthreaded {
        while !gone.load(Ordering::SeqCst) {
            std::thread::sleep(Duration::from_micros(200));
        }
    }
    beat();
    if let Some(v) = violation.lock().unwrap().clone() {
        return Err(v);
    }
    Ok(classes)
}

fn controlled(t: usize, k: usize, upstream: usize, choices: &[u16]) -> Result<(Vec<&'static str>, bool), String> {
    let mut run = PipeRun::new(t, upstream)?;
    let sched = Sched::Choices(choices.to_vec());
    let mut chooser = Chooser::new(&sched, t);
    let bound = bound_pipe(t);
    let limit = 80 * (k + t) + 600;
    let res: Result<bool, String> = (|| {
        // phase 1: until the consumer has k items (or the stream ended)
        while run.received.len() < k && !run.ended {
            let en = run.enabled();
            if en.is_empty() {
                return Err(format!("deadlock before the consumer got its {k} items (has {})", run.received.len()));
            }
            let a = chooser.choose(&en, run.last, run.steps);
            run.step(a, &en)?;
            if run.steps > limit {
                return Err(format!("consumer did not get {k} items within {limit} scheduling steps"));
            }
        }
        let consumed = run.received.len();
        // phase 2: consumer idle, only workers run until none can
        let mut idle_steps = 0;
        loop {
            let en: Vec<Actor> = run.enabled().into_iter().filter(|a| *a != Actor::Consumer).collect();
            if en.is_empty() {
                break;
            }
            let a = chooser.choose(&en, run.last, run.steps);
            run.step(a, &en)?;
            idle_steps += 1;
            let ahead = run.pulled.load(Ordering::SeqCst).saturating_sub(consumed);
            if ahead > bound {
                return Err(format!("consumer idle after {consumed} items: {ahead} items pulled ahead (bound {bound} for {t} threads)"));
            }
            if idle_steps > 40 * (t + 1) + 40 {
                return Err(format!("workers do not come to rest while the consumer is idle ({idle_steps} steps, {ahead} items ahead)"));
            }
        }
        let ahead_idle = run.pulled.load(Ordering::SeqCst).saturating_sub(consumed);
        let occ = run.occupancy();
        let mid = run.ctrl.snapshot().iter().any(|w| matches!(w, WState::Parked(Point::AfterTicket | Point::AfterCompute | Point::TurnSpin | Point::BeforeSend, _, _)));
        let nontrivial = occ >= 1 && mid;
        // phase 3: drop, run the workers to quiescence
        run.drop_pipe();
        let mut steps = 0;
        loop {
            let en: Vec<Actor> = run.enabled().into_iter().filter(|a| *a != Actor::Consumer).collect();
            if en.is_empty() {
                break;
            }
            let a = chooser.choose(&en, run.last, run.steps);
            run.step(a, &en)?;
            steps += 1;
            let ahead = run.pulled.load(Ordering::SeqCst).saturating_sub(consumed);
            if ahead > bound {
                return Err(format!("after the drop (consumed {consumed}): {ahead} items pulled from upstream (bound {bound}, {ahead_idle} before the drop)"));
            }
            if steps > 40 * (t + 1) + 40 {
                return Err(format!("workers still running {steps} scheduling steps after the drop: {:?}", run.ctrl.snapshot()));
            }
        }
        let _ = run.ctrl.wait_quiescent(Duration::from_secs(2));
        if t > 0 && !run.all_exited() {
            return Err(format!("after the drop not every worker reached its exit: {:?}", run.ctrl.snapshot()));
        }
        Ok(nontrivial)
    })();
    let mut classes = run.classes.clone();
    if run.occupancy() >= t as isize && t > 0 {
        classes.push("drop_with_full_channel");
    }
    run.finish();
    res.map(|nt| (classes, nt))
}

/// `tuv child panic-pipe T n j`: must terminate by itself
pub fn child_panic_pipe(args: &[String]) -> i32 {
    let t: usize = args.first().and_then(|s| s.parse().ok()).unwrap_or(1);
    let n: usize = args.get(1).and_then(|s| s.parse().ok()).unwrap_or(4);
    let j: usize = args.get(2).and_then(|s| s.parse().ok()).unwrap_or(0);
    let delay: u64 = args.get(3).and_then(|s| s.parse().ok()).unwrap_or(0);
    let history: u8 = args.get(4).and_then(|s| s.parse().ok()).unwrap_or(0);
    if matches!(history, 1 | 2 | 3) {
        let id: text_utils::data::Pipeline<usize, usize> = Arc::new(|x| x + 1);
        let got: Vec<usize> = (0..7usize).pipe(id, t.max(1) as u8).collect();
        if got != (1..8usize).collect::<Vec<_>>() {
            println!("earlier pipe gave {got:?}");
            return 0;
        }
    }
    if history == 2 {
        std::panic::set_hook(Box::new(|info| eprintln!("application hook: {info}")));
    }
    if matches!(history, 3 | 4) {
        let dir = super::common::work_dir();
        let corpus = dir.join("c09-corpus.txt");
        std::fs::write(&corpus, "ab ab abc\nbc ab\n").expect("write corpus");
        let r = text_utils::tokenization::train_bpe(&[&corpus], 260, 0, &dir.join("c09.merges"), None, None, 2, false);
        if r.is_err() {
            println!("train_bpe failed: {r:?}");
            return 0;
        }
    }
    let f: text_utils::data::Pipeline<usize, usize> = Arc::new(move |x| {
        if x == j {
            // the failing item may be slow: the other workers run ahead in the meantime
            if delay > 0 {
                std::thread::sleep(Duration::from_millis(delay));
            }
            panic!("injected failure at item {x}");
        }
        x
    });
    let buffered: Option<usize> = args.get(5).and_then(|s| s.parse().ok());
    // keep the hook that Pipe::new installs
    let pipe = (0..n).pipe(f, t as u8);
    let mut c = 0;
    match buffered {
        Some(k) => {
            for _ in pipe.buffered(k) {
                c += 1;
            }
        }
        None => {
            for _ in pipe {
                c += 1;
            }
        }
    }
    println!("consumed {c}");
    0
}

fn panic_child(t: usize, n: usize, j: usize, delay_ms: u64, history: u8, buffered: Option<usize>) -> Result<(), String> {
    let exe = std::env::current_exe().map_err(|e| e.to_string())?;
    for attempt in 0..2 {
        let mut child = Command::new(&exe)
            .args(["child", "panic-pipe", &t.to_string(), &n.to_string(), &j.to_string(), &delay_ms.to_string(), &history.to_string(), &buffered.map(|k| k.to_string()).unwrap_or_else(|| "-".into())])
            .stdin(Stdio::null())
            .stdout(Stdio::null())
            .stderr(Stdio::null())
            .spawn()
            .map_err(|e| e.to_string())?;
        let t0 = Instant::now();
        let mut status = None;
        while t0.elapsed() < Duration::from_secs(30) {
            beat();
            if let Ok(Some(s)) = child.try_wait() {
                status = Some(s);
                break;
            }
            std::thread::sleep(Duration::from_millis(2));
        }
        match status {
            Some(st) if st.success() => {
                return Err(format!("worker function panicked at item {j} (T={t}, n={n}, {delay_ms} ms into the item, history {history}, buffered {buffered:?}) but the process completed normally with exit status 0: the failure was swallowed and the consumer saw a truncated stream"));
            }
            Some(_) => return Ok(()),
            None => {
                let _ = child.kill();
                let _ = child.wait();
                if attempt == 1 {
                    return Err(format!("worker function panicked at item {j} (T={t}, n={n}, history {history}, buffered {buffered:?}) but the process was still alive after 30 s (twice): the consumer is blocked forever"));
                }
            }
        }
    }
    Ok(())
}

impl Prop for C09 {
    type Case = Case;
    const ID: &'static str = "C09";
    const RULE: &'static str = "(a) controlled schedules (C05 controller): T in 1..=4, consumer takes k in 0..=20 items of an upstream of k, k+1, 50 or 10^6 items, then only workers are scheduled until none can move (lookahead = pulled - consumed <= 4T+4), then the pipe is dropped and the workers are run to quiescence (all reach their exit point, still <= 4T+4 pulled); (b) the same with real threads for Pipe (T in 0..=4, chaos controller) and Buffered (buffer 0..=4, bound 2*buffer+4) with an upstream iterator that polices pulled - asked and pulls after the drop itself and whose Drop signals thread exit, optionally slow (0.1 / 1 ms per item) with a generated consumer idle time before the drop (0 / 50 us / 3 ms), so that the drop also lands while a background thread is fetching; (c) child processes in which the worker function panics at item j, optionally after a history in the same process (an earlier pipe run to its end, a panic hook installed by the application, the crate's own train_bpe, which installs a print-only hook) and optionally wrapped as pipe(..).buffered(k) like the loaders do: the child must terminate with a non-zero status. Non-trivial (a): at the drop >= 1 item is in the channel and >= 1 worker is between ticket and send. Distinct = distinct serialised case.";
    const CLAIMS_TERMINATION: bool = true;
    const HANG_SECS: u64 = 45;
    const ESSENTIAL: &'static [&'static str] = &["controlled", "real_pipe", "real_buffered", "panic_child", "panic_slow_near_end", "panic_after_foreign_hook", "panic_in_pipe_then_buffered", "unbounded_upstream", "drop_at_0", "drop_with_full_channel", "drop_during_fetch"];

    fn budget(tier: Tier) -> Budget {
        match tier {
            Tier::Quick => Budget { cases: 600, shards: 16 },
            Tier::Thorough => Budget { cases: 30000, shards: 16 },
        }
    }

    fn strategy(_tier: Tier, _shard: u32) -> BoxedStrategy<Case> {
        let up = |k: usize| prop_oneof![Just(k), Just(k + 1), Just(50usize.max(k)), Just(1_000_000usize), Just(1_000_000usize)];
        let controlled = (prop_oneof![10 => 1usize..=4, 1 => 5usize..=8], prop_oneof![10 => 0usize..=20, 1 => 21usize..=60], proptest::collection::vec(any::<u16>(), 0..=300))
            .prop_flat_map(move |(t, k, choices)| up(k).prop_map(move |upstream| Sub::Controlled { t, k, upstream, choices: choices.clone() }));
        // (time per upstream item, consumer idle time before the drop)
        let speed = || prop_oneof![
            3 => Just((0u64, None)),
            2 => (prop_oneof![Just(100u64), Just(1000u64)], prop_oneof![Just(0u64), Just(50u64), Just(3000u64)]).prop_map(|(s, i)| (s, Some(i))),
            1 => Just((0u64, Some(0u64))),
        ];
        let real_pipe = (prop_oneof![10 => 0usize..=4, 1 => 5usize..=16], prop_oneof![10 => 0usize..=20, 1 => 21usize..=200], any::<u64>(), speed()).prop_flat_map(move |(t, k, chaos, (slow_us, idle_us))| up(k).prop_map(move |upstream| Sub::RealPipe { t, k, upstream, chaos, slow_us, idle_us }));
        let real_buf = (prop_oneof![10 => 0usize..=4, 1 => 5usize..=64], prop_oneof![10 => 0usize..=20, 1 => 21usize..=200], speed()).prop_flat_map(move |(buffer, k, (slow_us, idle_us))| up(k).prop_map(move |upstream| Sub::RealBuffered { buffer, k, upstream, slow_us, idle_us }));
        let panic = (prop_oneof![10 => 1usize..=4, 1 => 5usize..=8], prop_oneof![10 => 1usize..=12, 1 => 13usize..=60], prop_oneof![Just(0u64), Just(5u64), Just(40u64)], prop_oneof![3 => Just(0u8), 4 => 1u8..=4], prop_oneof![2 => Just(None), 1 => (0usize..=4).prop_map(Some), 1 => Just(Some(16usize))]).prop_flat_map(|(t, n, delay_ms, history, buffered)| (0..n).prop_map(move |j| Sub::Panic { t, n, j, delay_ms, history, buffered }));
        prop_oneof![20 => controlled, 5 => real_pipe, 5 => real_buf, 2 => panic]
            .prop_map(|sub| Case { sub })
            .boxed()
    }

    fn assumptions() -> Vec<String> {
        vec![
            "the bounds 4T+4 (Pipe) and 2*buffer+4 (Buffered) are deliberately looser than the tight values of the current code (2T, buffer+2): the property asks for a constant independent of the input length".into(),
            "real-thread runs have no timing verdicts: the upstream iterator records a violation itself when a bound is exceeded; waiting for thread exit relies on the watchdog (the statement says the threads exit)".into(),
            "panic => exit: a child that is still alive after 30 s, twice, counts as blocked forever; a child that completes with exit status 0 although an item panicked counts as a swallowed failure".into(),
        ]
    }

    fn check(c: &Case, _strict: bool) -> Outcome {
        let mut out = Outcome::new();
        match &c.sub {
            Sub::Controlled { t, k, upstream, choices } => {
                out.label("controlled");
                out.label_if(*upstream >= 1_000_000, "unbounded_upstream");
                out.label_if(*k == 0, "drop_at_0");
                match controlled(*t, *k, *upstream, choices) {
                    Ok((classes, nt)) => {
                        for cl in classes {
                            out.label(cl);
                        }
                        out.nontrivial = nt;
                    }
                    Err(e) => out.fail(format!("T={t} k={k} upstream={upstream}: {e}")),
                }
            }
            Sub::RealPipe { t, k, upstream, chaos, slow_us, idle_us } => {
                out.label("real_pipe");
                out.label_if(*upstream >= 1_000_000, "unbounded_upstream");
                out.label_if(*k == 0, "drop_at_0");
                match real_run(Some(*t), 0, *k, *upstream, *chaos, *slow_us, *idle_us) {
                    Ok(cl) => {
                        out.nontrivial = cl.contains(&"lookahead_observed") && *upstream > *k;
                        for c in cl {
                            out.label(c);
                        }
                    }
                    Err(e) => out.fail(format!("Pipe with {t} threads, drop after {k} of {upstream}: {e}")),
                }
            }
            Sub::RealBuffered { buffer, k, upstream, slow_us, idle_us } => {
                out.label("real_buffered");
                out.label_if(*upstream >= 1_000_000, "unbounded_upstream");
                out.label_if(*k == 0, "drop_at_0");
                match real_run(None, *buffer, *k, *upstream, 0, *slow_us, *idle_us) {
                    Ok(cl) => {
                        out.nontrivial = cl.contains(&"lookahead_observed") && *upstream > *k;
                        for c in cl {
                            out.label(c);
                        }
                    }
                    Err(e) => out.fail(format!("Buffered({buffer}), drop after {k} of {upstream}: {e}")),
                }
            }
            Sub::Panic { t, n, j, delay_ms, history, buffered } => {
                out.label("panic_child");
                out.label_if(buffered.is_some(), "panic_in_pipe_then_buffered");
                out.label_if(*history >= 2, "panic_after_foreign_hook");
                out.nontrivial = *t >= 2 && *j + 1 < *n;
                out.label_if(*delay_ms > 0 && *j + *t > *n, "panic_slow_near_end");
                if let Err(e) = panic_child(*t, *n, *j, *delay_ms, *history, *buffered) {
                    out.fail(e);
                }
            }
        }
        out
    }
}
