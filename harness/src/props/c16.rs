//! C16 — inference windows tile the text exactly and respect the size limits.
use crate::engine::*;
use crate::ensure;
use crate::gen;
use proptest::prelude::*;
use proptest::sample::select;
use serde::{Deserialize, Serialize};
use text_utils::text::{possible_byte_substrings, possible_character_substrings};
use text_utils::windows::{self, WindowConfig};

#[derive(Debug, Clone, Serialize, Deserialize)]
pub struct Case {
    pub s: String,
    pub max: usize,
    pub ctx: usize,
    /// 0 char, 1 byte, 2 full
    pub kind: u8,
    pub graphemes: bool,
}

pub struct C16;

pub const UNITS: &[&str] = &[
    "a", "b", " ", "x", "ä", "ß", "中", "ー", "😀", "𝄞", "e\u{301}", "a\u{323}\u{308}", "👍🏽",
    "👩\u{200d}👩\u{200d}👧", "🇩🇪", "\r\n", "\n", "\u{301}", "한",
];

impl Prop for C16 {
    type Case = Case;
    const ID: &'static str = "C16";
    const FUZZ_TARGET: Option<&'static str> = Some("windows_tile");
    const FUZZ_RUNS: u64 = 6000000;
    fn fuzz_decode(bytes: &[u8]) -> Option<Case> {
        crate::fuzzdec::c16(bytes)
    }
    const RULE: &'static str = "strings of 0-40 units mixing 1-4 byte characters and clusters of up to 25 bytes (plus arbitrary Unicode fragments) x max in 0..=24 or 2^20 x context 0..=8 (so invalid max <= 2*ctx and characters wider than the window are frequent) x {char, byte, full} x use_graphemes. Oracle: Err exactly for invalid configurations (byte mode: additionally allowed when some character is wider than max - 2*ctx, required-Ok when all characters fit); on Ok the windows tile 0..len, none empty, byte ranges concatenate to the text, context contains the window and is within max, str is the context slice, byte offsets equal the prefix sums of character byte lengths; substring helpers use the same arithmetic and are checked for bounds. Non-trivial: >= 3 windows over a text with a >= 3-byte character. Distinct = distinct serialised case.";
    const CLAIMS_TERMINATION: bool = true;
    const HANG_SECS: u64 = 20;
    const ESSENTIAL: &'static [&'static str] = &["char", "byte", "full", "invalid_cfg", "wide_char_err", "ctx_clamped_left", "ctx_clamped_right", ">=3_windows", "empty_text"];

    fn budget(tier: Tier) -> Budget {
        match tier {
            Tier::Quick => Budget { cases: 120000, shards: 16 },
            Tier::Thorough => Budget { cases: 960000, shards: 16 },
        }
    }

    fn strategy(_tier: Tier, _shard: u32) -> BoxedStrategy<Case> {
        (
            prop_oneof![
                16 => proptest::collection::vec(select(UNITS), 0..=40).prop_map(|v| v.concat()),
                1 => gen::with_giant(proptest::collection::vec(select(UNITS), 0..=20).prop_map(|v| v.concat()).boxed(), 2),
                1 => proptest::collection::vec(select(UNITS), 41..=300).prop_map(|v| v.concat()),
                1 => gen::text(12),
            ],
            prop_oneof![24 => 0usize..=24, 2 => Just(1usize << 20), 1 => 25usize..=200],
            prop_oneof![16 => 0usize..=8, 1 => 9usize..=60],
            prop_oneof![4 => Just(0u8), 4 => Just(1u8), 1 => Just(2u8)],
            any::<bool>(),
        )
            .prop_map(|(s, max, ctx, kind, graphemes)| Case { s, max, ctx, kind, graphemes })
            .boxed()
    }

    fn assumptions() -> Vec<String> {
        vec![
            "window and context sizes stay below 2^20 (2*context is computed unchecked by the code; the realistic range for a model window)".into(),
            "byte mode: whether a character wider than max - 2*ctx but not wider than max - ctx is an error depends on where it falls; both outcomes are accepted in that band".into(),
            "the empty text yields one empty window (the statement quantifies over non-empty texts; recorded as a class only)".into(),
        ]
    }

    fn check(c: &Case, _strict: bool) -> Outcome {
        let mut out = Outcome::new();
        let g = c.graphemes;
        let s = c.s.as_str();
        let cl = gen::clusters(s, g);
        let n = cl.len();
        let mut off = vec![0usize; n + 1];
        for (i, u) in cl.iter().enumerate() {
            off[i + 1] = off[i] + u.len();
        }
        let cfg = match c.kind {
            0 => WindowConfig::Character(c.max, c.ctx, g),
            1 => WindowConfig::Bytes(c.max, c.ctx, g),
            _ => WindowConfig::Full(g),
        };
        out.label(match c.kind {
            0 => "char",
            1 => "byte",
            _ => "full",
        });
        // the same text in the other unit first: an answer must not depend on what was asked before
        let _ = windows::windows(s, &WindowConfig::Full(!g));
        let r = windows::windows(s, &cfg);
        beat();
        if s.is_empty() {
            out.label("empty_text");
            match r {
                Ok(w) => ensure!(out, w.len() == 1 && w[0].boundaries() == (0, 0, 0, 0) && w[0].str.is_empty(), "empty text: {:?}", w.iter().map(|w| w.boundaries()).collect::<Vec<_>>()),
                Err(e) => {
                    out.fail(format!("empty text rejected: {e}"));
                    return out;
                }
            }
            return out;
        }
        let invalid = c.kind != 2 && c.max <= 2 * c.ctx;
        let ws = match r {
            Err(e) => {
                if invalid {
                    out.label("invalid_cfg");
                    return out;
                }
                if c.kind == 1 {
                    let widest = cl.iter().map(|u| u.len()).max().unwrap_or(0);
                    ensure!(out, widest > c.max - 2 * c.ctx, "byte windows failed although every character ({widest} bytes at most) fits the smallest window ({}): {}", c.max - 2 * c.ctx, e.to_string().chars().take(120).collect::<String>());
                    out.label("wide_char_err");
                    return out;
                }
                out.fail(format!("valid configuration rejected: {e}"));
                return out;
            }
            Ok(w) => w,
        };
        ensure!(out, !invalid, "max {} <= 2 * context {} accepted", c.max, c.ctx);
        ensure!(out, !ws.is_empty(), "no window for a non-empty text");
        out.label_if(ws.len() >= 3, ">=3_windows");
        out.nontrivial = ws.len() >= 3 && cl.iter().any(|u| u.len() >= 3);
        let mut prev_end = 0usize;
        let mut rebuilt = String::new();
        for (i, w) in ws.iter().enumerate() {
            let (cs, wst, we, ce) = w.boundaries();
            let (bcs, bws, bwe, bce) = w.byte_boundaries();
            ensure!(out, wst == prev_end, "window {i} starts at {wst}, previous ended at {prev_end}");
            ensure!(out, we > wst, "window {i} is empty ({wst}..{we})");
            ensure!(out, we <= n && ce <= n, "window {i} exceeds the text: {:?} (len {n})", w.boundaries());
            ensure!(out, cs <= wst && we <= ce, "context {cs}..{ce} does not contain window {wst}..{we}");
            ensure!(out, (bcs, bws, bwe, bce) == (off[cs], off[wst], off[we], off[ce]), "window {i}: byte boundaries {:?} do not denote the character boundaries {:?} (expected {:?})", w.byte_boundaries(), w.boundaries(), (off[cs], off[wst], off[we], off[ce]));
            ensure!(out, w.str == &s[bcs..bce], "window {i}: str {:?} is not the context slice {:?}", w.str, &s[bcs..bce]);
            match c.kind {
                0 => ensure!(out, ce - cs <= c.max, "window {i}: context of {} characters exceeds max {}", ce - cs, c.max),
                1 => ensure!(out, bce - bcs <= c.max, "window {i}: context of {} bytes exceeds max {}", bce - bcs, c.max),
                _ => ensure!(out, ws.len() == 1 && (cs, wst, we, ce) == (0, 0, n, n), "full window is not the whole text"),
            }
            out.label_if(i == 0 && c.ctx > 0 && c.kind != 2, "ctx_clamped_left");
            out.label_if(ce == n && we < n && c.kind != 2, "ctx_clamped_right");
            rebuilt.push_str(&s[bws..bwe]);
            prev_end = we;
        }
        ensure!(out, prev_end == n, "last window ends at {prev_end}, text has {n} characters");
        ensure!(out, rebuilt == s, "window byte ranges do not reproduce the text");
        // the substring helpers share the index arithmetic
        if c.max > 0 && c.max < 1 << 20 {
            let pos = |x: usize| off.iter().position(|o| *o == x);
            for (a, b, k) in possible_character_substrings(s, c.max, g) {
                ensure!(out, matches!((pos(a), pos(b)), (Some(i), Some(j)) if i <= j && j - i == k && k <= c.max), "possible_character_substrings gave ({a},{b},{k}) which is not a range of <= {} characters", c.max);
            }
            for (a, b, k) in possible_byte_substrings(s, c.max, g) {
                ensure!(out, matches!((pos(a), pos(b)), (Some(i), Some(j)) if i <= j && j - i == k) && b - a <= c.max, "possible_byte_substrings gave ({a},{b},{k}) which is not a character range of <= {} bytes", c.max);
            }
        }
        out
    }
}
