//! C13 — correction metrics are total, bounded, calibrated and aggregate correctly.
use crate::engine::*;
use crate::ensure;
use crate::gen;
use crate::model;
use proptest::prelude::*;
use proptest::sample::select;
use serde::{Deserialize, Serialize};
use text_utils::metrics::{self, F1Info, WhitespaceCorrectionMode};
use text_utils::text::clean;
use text_utils::unicode::{normalize, Normalization};

#[derive(Debug, Clone, Serialize, Deserialize)]
pub enum Sub {
    /// spelling F1 on generated word-level triples
    Spelling { triples: Vec<(String, String, String)> },
    /// whitespace F1 on triples that are whitespace variants of one character sequence:
    /// (characters, gaps of input, gaps of prediction, gaps of target)
    Whitespace { seqs: Vec<(Vec<String>, Vec<bool>, Vec<bool>, Vec<bool>)>, mode: u8 },
    /// anything at all: totality and range only
    Wild { triples: Vec<(String, String, String)>, mode: u8 },
    /// the prediction repairs every misspelled word but breaks a correct one: recall 1, precision < 1
    /// (target = words + unique last word; input = words with some replaced + the same last word;
    /// prediction = words + a garbage last word)
    BreakCorrect { words: Vec<String>, replaced: Vec<(u16, String)> },
    /// accuracy / binary F1 / mean edit distances
    Simple { a: Vec<String>, b: Vec<String>, pa: Vec<bool>, pb: Vec<bool> },
}

#[derive(Debug, Clone, Serialize, Deserialize)]
pub struct Case {
    pub sub: Sub,
    pub beta: f64,
    pub graphemes: bool,
    /// permutation seed for the aggregation laws
    pub rot: usize,
}

pub struct C13;

pub(crate) const WORDS: &[&str] = &[
    "a", "b", "ab", "A", "the", "cat", "eats", "fish", "ba", "x", "´x", "x´", "ﬁsh", "é", "e\u{301}", "中", "a.", "¨",
    // multi-code-point clusters that NFKC does not compose (grapheme index != code-point index)
    "👍🏽", "x\u{301}b", "🇩🇪a",
];

pub(crate) const PLAIN_WORDS: &[&str] = &["a", "b", "ab", "the", "cat", "eats", "fish", "ba", "x", "A", "👍🏽", "x\u{301}b"];

fn sentence(max: usize) -> BoxedStrategy<Vec<String>> {
    // one word in 80 is a single grapheme cluster of more than 255 bytes
    proptest::collection::vec(prop_oneof![80 => select(WORDS).prop_map(str::to_string), 1 => Just(gen::GIANT.to_string())], 0..=max).boxed()
}

pub(crate) fn corrupt(words: &[String], ops: &[(u8, u16, String)]) -> Vec<String> {
    let mut v = words.to_vec();
    for (k, pos, w) in ops {
        match k % 6 {
            0 if !v.is_empty() => {
                v.remove(idx16(*pos, v.len()));
            }
            1 => v.insert(idx16(*pos, v.len() + 1), w.clone()),
            2 if v.len() >= 2 => {
                let i = idx16(*pos, v.len() - 1);
                let m = format!("{}{}", v[i], v[i + 1]);
                v[i] = m;
                v.remove(i + 1);
            }
            3 if !v.is_empty() => {
                let i = idx16(*pos, v.len());
                let cs: Vec<char> = v[i].chars().collect();
                if cs.len() >= 2 {
                    let l: String = cs[..1].iter().collect();
                    let r: String = cs[1..].iter().collect();
                    v[i] = l;
                    v.insert(i + 1, r);
                }
            }
            4 if !v.is_empty() => {
                let i = idx16(*pos, v.len());
                v[i] = w.clone();
            }
            5 if v.len() >= 2 => {
                let i = idx16(*pos, v.len() - 1);
                v.swap(i, i + 1);
            }
            _ => {}
        }
    }
    v
}

pub(crate) fn join(words: &[String], seps: &[String]) -> String {
    let mut s = String::new();
    for (i, w) in words.iter().enumerate() {
        if i > 0 {
            s.push_str(seps.get(i % seps.len().max(1)).map(|x| x.as_str()).unwrap_or(" "));
        }
        s.push_str(w);
    }
    s
}

/// a string of exactly 63..65 / 127..129 / 255..257 characters (word-size boundaries of bit-parallel
/// or blocked implementations), a two-letter pattern with a few substitutions
fn sized_string() -> BoxedStrategy<String> {
    (select(vec![63usize, 64, 64, 65, 127, 128, 129, 255, 256, 257]), proptest::collection::vec((any::<u16>(), select(vec!['x', 'y', ' ', 'ä'])), 0..=3))
        .prop_map(|(n, subs)| {
            let mut v: Vec<char> = (0..n).map(|i| if i % 2 == 0 { 'a' } else { 'b' }).collect();
            for (p, ch) in subs {
                let i = idx16(p, n);
                // keep the string clean: no space at the ends or next to another space
                if ch == ' ' && (i == 0 || i + 1 == n || v[i - 1] == ' ' || v[i + 1] == ' ') {
                    continue;
                }
                v[i] = ch;
            }
            v.into_iter().collect()
        })
        .boxed()
}

fn triple() -> BoxedStrategy<(String, String, String)> {
    let op = (any::<u8>(), any::<u16>(), select(WORDS).prop_map(str::to_string));
    (
        prop_oneof![16 => sentence(6), 1 => sentence(30)],
        proptest::collection::vec(op.clone(), 0..=3),
        proptest::collection::vec(op, 0..=3),
        0u8..8,
        proptest::collection::vec(prop_oneof![4 => Just(" ".to_string()), 1 => gen::ws_run(1, 2)], 1..=3),
        any::<bool>(),
    )
        .prop_map(|(target, e1, e2, mode, seps, pad)| {
            let input = corrupt(&target, &e1);
            let pred = match mode {
                0 | 1 => target.clone(),
                2 => input.clone(),
                3 => corrupt(&input, &e2),
                4 => corrupt(&target, &e2),
                5 => vec![],
                _ => corrupt(&input, &e2[..e2.len().min(1)]),
            };
            let p = if pad { " " } else { "" };
            (
                format!("{p}{}", join(&input, &seps)),
                join(&pred, &seps),
                format!("{}{p}", join(&target, &seps)),
            )
        })
        .boxed()
}

// incl. multi-code-point clusters that NFKC leaves alone (grapheme index != code-point index)
pub(crate) const WS_ALPHA: &[&str] = &["a", "b", "c", "ä", "中", "x", "é", "👍🏽", "x\u{301}", "🇩🇪"];

fn ws_seq() -> BoxedStrategy<(Vec<String>, Vec<bool>, Vec<bool>, Vec<bool>)> {
    (0usize..=8)
        .prop_flat_map(|n| {
            (
                proptest::collection::vec(select(WS_ALPHA).prop_map(str::to_string), n),
                proptest::collection::vec(any::<bool>(), n),
                proptest::collection::vec(any::<bool>(), n),
                proptest::collection::vec(any::<bool>(), n),
            )
        })
        .boxed()
}

fn place(chars: &[String], gaps: &[bool]) -> String {
    let mut s = String::new();
    for (i, c) in chars.iter().enumerate() {
        if i > 0 && gaps[i] {
            s.push(' ');
        }
        s.push_str(c);
    }
    s
}

/// reference whitespace operations between two clean placements of the same characters:
/// set of (index in `from`, is_insert)
fn ref_ws_ops(n: usize, from: &[bool], to: &[bool]) -> Vec<(usize, bool)> {
    let mut ops = vec![];
    let mut idx = 0usize; // character index in the `from` text
    for k in 0..n {
        let f = k > 0 && from[k];
        let t = k > 0 && to[k];
        if f {
            // the space character at idx
            if !t {
                ops.push((idx, false)); // delete
            }
            idx += 1;
        }
        if !f && t {
            ops.push((idx, true)); // insert before this character
        }
        idx += 1;
    }
    ops
}

fn fbeta(tp: usize, fp: usize, fn_: usize, beta: f64) -> (f64, f64, f64) {
    let p = tp as f64 / ((tp + fp).max(1)) as f64;
    let r = tp as f64 / ((tp + fn_).max(1)) as f64;
    let f = if p + r > 0.0 {
        (1.0 + beta * beta) * p * r / (beta * beta * p + r)
    } else {
        0.0
    };
    (f, p, r)
}

fn mode_of(m: u8) -> WhitespaceCorrectionMode {
    match m % 3 {
        0 => WhitespaceCorrectionMode::Insertions,
        1 => WhitespaceCorrectionMode::Deletions,
        _ => WhitespaceCorrectionMode::InsertionsAndDeletions,
    }
}

fn in_unit(v: f64) -> bool {
    v.is_finite() && (0.0..=1.0 + 1e-12).contains(&v)
}

fn close(a: f64, b: f64) -> bool {
    (a - b).abs() < 1e-9
}

/// the text the metrics work on
fn norm(s: &str) -> String {
    // independent of the crate's helpers wherever cluster-wise and code-point-wise cleaning
    // agree (no cluster mixing whitespace with other code points, before and after NFKC)
    if model::mixed_free(s) {
        let m = model::normalize_model(&model::clean_model(s), 2);
        if model::mixed_free(&m) {
            return model::clean_model(&m);
        }
    }
    clean(&normalize(&clean(s, true), Normalization::NFKC, true), true)
}

fn words(s: &str) -> Vec<String> {
    s.split_ascii_whitespace().map(str::to_string).collect()
}

impl Prop for C13 {
    type Case = Case;
    const ID: &'static str = "C13";
    const FUZZ_TARGET: Option<&'static str> = Some("metrics");
    const FUZZ_RUNS: u64 = 250000;
    fn fuzz_decode(bytes: &[u8]) -> Option<Case> {
        crate::fuzzdec::c13(bytes)
    }
    const RULE: &'static str = "four generated families: (a) spelling triples built from a target word sequence with word-level corruptions (delete/add/merge/split/replace/swap words, empty prediction, NFKC-space characters, unclean separators), prediction = target / input / further corruption; (b) whitespace triples = three independent space placements of one character sequence (all valid variants), all three modes; (c) arbitrary Unicode triples (totality + range only); (d) label/prediction vectors and string lists for accuracy, binary F1, mean (normalised) edit distance; x beta in {0.5,1,2} x sequence_averaged x use_graphemes. Oracles: range, calibration laws via reference LCS, reference whitespace-operation sets, aggregation laws, defining formulas with the C12 reference distance. Non-trivial: a triple with prediction != input != target in which one text is empty or the word counts differ (a), >= 2 sequences with both an insertion and a deletion (b). Distinct = distinct serialised case.";
    const ESSENTIAL: &'static [&'static str] = &["spelling", "whitespace", "wild", "simple", "empty_pred", "empty_input", "empty_list", "nfkc_space", "pred_eq_target", "pred_eq_input", "merged_or_split", "break_correct", "250_or_more_pairs"];

    fn budget(tier: Tier) -> Budget {
        match tier {
            Tier::Quick => Budget { cases: 9600, shards: 16 },
            Tier::Thorough => Budget { cases: 691200, shards: 16 },
        }
    }

    fn strategy(_tier: Tier, _shard: u32) -> BoxedStrategy<Case> {
        let wild_t = (gen::text(5), gen::text(5), gen::text(5));
        let sub = prop_oneof![
            10 => proptest::collection::vec(triple(), 0..=4).prop_map(|triples| Sub::Spelling { triples }),
            1 => proptest::collection::vec(triple(), 5..=40).prop_map(|triples| Sub::Spelling { triples }),
            6 => (proptest::collection::vec(ws_seq(), 0..=4), 0u8..3).prop_map(|(seqs, mode)| Sub::Whitespace { seqs, mode }),
            1 => (proptest::collection::vec(ws_seq(), 5..=40), 0u8..3).prop_map(|(seqs, mode)| Sub::Whitespace { seqs, mode }),
            4 => (proptest::collection::vec(wild_t, 0..=3), 0u8..3).prop_map(|(triples, mode)| Sub::Wild { triples, mode }),
            4 => (proptest::collection::vec(select(PLAIN_WORDS).prop_map(str::to_string), 1..=6),
                  proptest::collection::vec((any::<u16>(), select(PLAIN_WORDS).prop_map(str::to_string)), 1..=3))
                .prop_map(|(words, replaced)| Sub::BreakCorrect { words, replaced }),
            4 => prop_oneof![120 => 0usize..=4, 10 => 5usize..=60, 1 => 250usize..=600].prop_flat_map(|n| (
                    proptest::collection::vec(prop_oneof![20 => gen::text(4), 20 => select(WORDS).prop_map(str::to_string), 1 => sized_string()], n),
                    proptest::collection::vec(prop_oneof![20 => gen::text(4), 20 => select(WORDS).prop_map(str::to_string), 1 => sized_string()], n),
                    proptest::collection::vec(any::<bool>(), n),
                    proptest::collection::vec(any::<bool>(), n),
                )).prop_map(|(a, b, pa, pb)| Sub::Simple { a, b, pa, pb }),
        ];
        (sub, select(vec![0.5f64, 1.0, 2.0]), any::<bool>(), 0usize..6)
            .prop_map(|(sub, beta, graphemes, rot)| Case { sub, beta, graphemes, rot })
            .boxed()
    }

    fn assumptions() -> Vec<String> {
        vec![
            "the metrics' own text normalisation (clean + NFKC, cleaned again) is computed independently (split/join, per-cluster unicode-normalization) unless a cluster mixes whitespace with other code points before or after NFKC, where the crate's public clean()/normalize() are used; the oracles work on the normalised texts".into(),
            "calibration in grapheme mode is asserted only when the normalised texts are segmentation-stable (KF3 is the recorded finding outside that domain)".into(),
            "floating point comparisons use an absolute tolerance of 1e-9 (rayon summation order is not fixed)".into(),
            "mean edit distance formulas are checked on pairs whose NFKC form does not introduce whitespace".into(),
        ]
    }

    fn check(c: &Case, strict: bool) -> Outcome {
        let mut out = Outcome::new();
        let g = c.graphemes;
        let beta = c.beta;
        match &c.sub {
            Sub::Spelling { triples } => {
                out.label("spelling");
                out.label_if(triples.is_empty(), "empty_list");
                let ins: Vec<&str> = triples.iter().map(|t| t.0.as_str()).collect();
                let prs: Vec<&str> = triples.iter().map(|t| t.1.as_str()).collect();
                let tgs: Vec<&str> = triples.iter().map(|t| t.2.as_str()).collect();
                let mut singles = vec![];
                for (i, p, t) in triples {
                    let (ni, np, nt) = (norm(i), norm(p), norm(t));
                    let (wi, wp, wt) = (words(&ni), words(&np), words(&nt));
                    out.label_if(wp.is_empty(), "empty_pred");
                    out.label_if(wi.is_empty(), "empty_input");
                    out.label_if(clean(i, true) != ni || clean(p, true) != np, "nfkc_space");
                    out.label_if(wi.len() != wt.len() || wp.len() != wi.len(), "merged_or_split");
                    if np != ni && ni != nt && (wi.is_empty() || wp.is_empty() || wt.is_empty() || wi.len() != wt.len() || wp.len() != wi.len()) {
                        out.nontrivial = true;
                    }
                    let mut per = vec![];
                    for avg in [false, true] {
                        match metrics::spelling_correction_f1(&[i.as_str()], &[p.as_str()], &[t.as_str()], beta, avg, g) {
                            Ok(((f, pr, rc), infos)) => {
                                ensure!(out, in_unit(f) && in_unit(pr) && in_unit(rc), "spelling F1 out of range: ({f},{pr},{rc}) for {i:?} {p:?} {t:?}");
                                ensure!(out, infos.len() == 1, "expected one info per sequence");
                                per.push((f, pr, rc));
                            }
                            Err(e) => {
                                out.fail(format!("spelling_correction_f1 failed on lists of equal length: {e}"));
                                return out;
                            }
                        }
                    }
                    singles.push(per[1]);
                    let stable = !g || strict || (gen::is_stable(&ni) && gen::is_stable(&np) && gen::is_stable(&nt));
                    if !stable {
                        out.label("kf3_class_excluded_from_calibration");
                        continue;
                    }
                    let misspelled = model::lcs_len(&wi, &wt) < wt.len();
                    if np == nt {
                        out.label("pred_eq_target");
                        for (k, (f, pr, rc)) in per.iter().enumerate() {
                            let ones = close(*pr, 1.0) && close(*rc, 1.0) && close(*f, 1.0);
                            let zeros = *pr == 0.0 && *rc == 0.0 && *f == 0.0;
                            ensure!(out, ones || zeros, "prediction == target but (f,prec,rec) = ({f},{pr},{rc}) (avg={}) for input {i:?} target {t:?} graphemes={g}: false positives or negatives counted", k == 1);
                            if misspelled {
                                ensure!(out, ones, "prediction == target restores a misspelled word but (f,prec,rec) = ({f},{pr},{rc}) for input {i:?} target {t:?}");
                            }
                        }
                    }
                    if np == ni && misspelled {
                        out.label("pred_eq_input");
                        for (f, pr, rc) in &per {
                            ensure!(out, *f == 0.0 && *pr == 0.0 && *rc == 0.0, "unchanged prediction of an erroneous input has (f,prec,rec) = ({f},{pr},{rc}) for input {i:?} target {t:?}");
                        }
                    }
                }
                // aggregation laws
                for avg in [false, true] {
                    let all = match metrics::spelling_correction_f1(&ins, &prs, &tgs, beta, avg, g) {
                        Ok((v, infos)) => {
                            ensure!(out, infos.len() == ins.len(), "info count");
                            v
                        }
                        Err(e) => {
                            out.fail(format!("spelling_correction_f1 failed: {e}"));
                            return out;
                        }
                    };
                    ensure!(out, in_unit(all.0) && in_unit(all.1) && in_unit(all.2), "spelling F1 out of range: {all:?}");
                    if avg {
                        let n = singles.len().max(1) as f64;
                        let m = singles.iter().fold((0.0, 0.0, 0.0), |a, s| (a.0 + s.0, a.1 + s.1, a.2 + s.2));
                        ensure!(out, close(all.0, m.0 / n) && close(all.1, m.1 / n) && close(all.2, m.2 / n),
                            "sequence-averaged F1 {all:?} is not the mean of the per-sequence values {singles:?}");
                    } else if !ins.is_empty() {
                        let k = c.rot % ins.len();
                        let rot = |v: &Vec<&str>| -> Vec<String> { v[k..].iter().chain(v[..k].iter()).map(|s| s.to_string()).collect() };
                        let (ri, rp, rt) = (rot(&ins), rot(&prs), rot(&tgs));
                        let r = metrics::spelling_correction_f1(&ri, &rp, &rt, beta, false, g).map(|x| x.0);
                        ensure!(out, matches!(r, Ok(v) if close(v.0, all.0) && close(v.1, all.1) && close(v.2, all.2)), "micro F1 changes under permutation: {all:?} vs {r:?}");
                        let dup = |v: &Vec<&str>| -> Vec<String> { v.iter().chain(v.iter()).map(|s| s.to_string()).collect() };
                        let r = metrics::spelling_correction_f1(&dup(&ins), &dup(&prs), &dup(&tgs), beta, false, g).map(|x| x.0);
                        ensure!(out, matches!(r, Ok(v) if close(v.0, all.0) && close(v.1, all.1) && close(v.2, all.2)), "micro F1 changes when the list is duplicated: {all:?} vs {r:?}");
                    }
                }
                // length mismatch is an error
                if !ins.is_empty() {
                    let r = metrics::spelling_correction_f1(&ins[1..], &prs, &tgs, beta, true, g);
                    ensure!(out, r.is_err(), "lists of different length accepted");
                }
            }
            Sub::Whitespace { seqs, mode } => {
                out.label("whitespace");
                out.label_if(seqs.is_empty(), "empty_list");
                let ins: Vec<String> = seqs.iter().map(|s| place(&s.0, &s.1)).collect();
                let prs: Vec<String> = seqs.iter().map(|s| place(&s.0, &s.2)).collect();
                let tgs: Vec<String> = seqs.iter().map(|s| place(&s.0, &s.3)).collect();
                let keep = |is_insert: bool| -> bool {
                    match mode % 3 {
                        0 => is_insert,
                        1 => !is_insert,
                        _ => true,
                    }
                };
                let mut counts = vec![];
                let mut both = 0;
                for s in seqs {
                    let n = s.0.len();
                    let gt: Vec<(usize, bool)> = ref_ws_ops(n, &s.1, &s.3).into_iter().filter(|o| keep(o.1)).collect();
                    let pr: Vec<(usize, bool)> = ref_ws_ops(n, &s.1, &s.2).into_iter().filter(|o| keep(o.1)).collect();
                    let tp = pr.iter().filter(|o| gt.contains(o)).count();
                    let fp = pr.len() - tp;
                    let fn_ = gt.len() - tp;
                    if gt.iter().any(|o| o.1) && gt.iter().any(|o| !o.1) {
                        both += 1;
                    }
                    counts.push((gt.is_empty() && pr.is_empty(), tp, fp, fn_));
                }
                out.nontrivial = both >= 2;
                for avg in [false, true] {
                    match metrics::whitespace_correction_f1(&ins, &prs, &tgs, beta, avg, mode_of(*mode), g) {
                        Ok(((f, p, r), infos)) => {
                            ensure!(out, in_unit(f) && in_unit(p) && in_unit(r), "whitespace F1 out of range ({f},{p},{r})");
                            ensure!(out, infos.len() == seqs.len(), "info count {} != {}", infos.len(), seqs.len());
                            for (k, info) in infos.iter().enumerate() {
                                match info {
                                    F1Info::WhitespaceCorrectionInfo((tpi, fpi, fni)) => {
                                        let (_, tp, fp, fn_) = counts[k];
                                        ensure!(out, (tpi.len(), fpi.len(), fni.len()) == (tp, fp, fn_),
                                            "sequence {k}: counted tp/fp/fn = ({},{},{}), set comparison of the reference operations gives ({tp},{fp},{fn_}) for input {:?} prediction {:?} target {:?} mode {}",
                                            tpi.len(), fpi.len(), fni.len(), ins[k], prs[k], tgs[k], mode % 3);
                                    }
                                    other => {
                                        out.fail(format!("unexpected info {other:?}"));
                                        return out;
                                    }
                                }
                            }
                            let want = if avg {
                                let n = counts.len().max(1) as f64;
                                let s = counts.iter().map(|(e, tp, fp, fn_)| if *e { (1.0, 1.0, 1.0) } else { fbeta(*tp, *fp, *fn_, beta) })
                                    .fold((0.0, 0.0, 0.0), |a, s| (a.0 + s.0, a.1 + s.1, a.2 + s.2));
                                (s.0 / n, s.1 / n, s.2 / n)
                            } else {
                                let s = counts.iter().fold((0, 0, 0), |a, c| (a.0 + c.1, a.1 + c.2, a.2 + c.3));
                                fbeta(s.0, s.1, s.2, beta)
                            };
                            ensure!(out, close(f, want.0) && close(p, want.1) && close(r, want.2),
                                "whitespace F1 (avg={avg}, beta={beta}) = ({f},{p},{r}), formula over the reference counts gives {want:?}");
                        }
                        Err(e) => {
                            out.fail(format!("whitespace_correction_f1 failed on valid whitespace variants {ins:?} {prs:?} {tgs:?}: {e}"));
                            return out;
                        }
                    }
                }
            }
            Sub::Wild { triples, mode } => {
                out.label("wild");
                let ins: Vec<&str> = triples.iter().map(|t| t.0.as_str()).collect();
                let prs: Vec<&str> = triples.iter().map(|t| t.1.as_str()).collect();
                let tgs: Vec<&str> = triples.iter().map(|t| t.2.as_str()).collect();
                for avg in [false, true] {
                    match metrics::spelling_correction_f1(&ins, &prs, &tgs, beta, avg, g) {
                        Ok(((f, p, r), _)) => ensure!(out, in_unit(f) && in_unit(p) && in_unit(r), "spelling F1 out of range ({f},{p},{r})"),
                        Err(e) => {
                            out.fail(format!("spelling_correction_f1 failed: {e}"));
                            return out;
                        }
                    }
                    // Err is allowed here (not whitespace variants), a panic is not
                    if let Ok(((f, p, r), _)) = metrics::whitespace_correction_f1(&ins, &prs, &tgs, beta, avg, mode_of(*mode), g) {
                        ensure!(out, in_unit(f) && in_unit(p) && in_unit(r), "whitespace F1 out of range ({f},{p},{r})");
                    }
                }
                for (a, b) in [(&ins, &tgs), (&prs, &tgs)] {
                    for r in [metrics::mean_edit_distance(a, b, g), metrics::mean_normalized_edit_distance(a, b, g)] {
                        ensure!(out, matches!(r, Ok(v) if v.is_finite() && v >= 0.0), "mean edit distance not finite: {r:?}");
                    }
                }
            }
            Sub::BreakCorrect { words, replaced } => {
                out.label("break_correct");
                let mut input_words = words.clone();
                for (pos, w) in replaced {
                    let i = idx16(*pos, input_words.len());
                    input_words[i] = w.clone();
                }
                let misspelled = words.len() - model::lcs_len(&input_words, words);
                let input = format!("{} qq", input_words.join(" "));
                let target = format!("{} qq", words.join(" "));
                let pred = format!("{} zzz", words.join(" "));
                out.nontrivial = misspelled >= 1 && words.len() >= 2;
                for avg in [false, true] {
                    match metrics::spelling_correction_f1(&[input.as_str()], &[pred.as_str()], &[target.as_str()], beta, avg, g) {
                        Ok(((f, p, r), _)) => {
                            ensure!(out, in_unit(f) && in_unit(p) && in_unit(r), "spelling F1 out of range ({f},{p},{r})");
                            if misspelled >= 1 {
                                ensure!(out, close(r, 1.0) && p > 0.0 && p < 1.0 - 1e-9,
                                    "prediction {pred:?} restores all {misspelled} misspelled word(s) of input {input:?} (target {target:?}) but breaks the correct last word: expected recall 1 and 0 < precision < 1, got precision {p}, recall {r}");
                            }
                        }
                        Err(e) => {
                            out.fail(format!("spelling_correction_f1 failed: {e}"));
                            return out;
                        }
                    }
                }
            }
            Sub::Simple { a, b, pa, pb } => {
                out.label("simple");
                out.label_if(a.is_empty(), "empty_list");
                let n = a.len();
                out.label_if(n >= 250, "250_or_more_pairs");
                // accuracy
                let acc = metrics::accuracy(a, b);
                let want = a.iter().zip(b).filter(|(x, y)| x == y).count() as f64 / n.max(1) as f64;
                ensure!(out, matches!(acc, Ok(v) if close(v, want)), "accuracy = {acc:?}, formula {want}");
                let acc2 = metrics::accuracy(a, a);
                ensure!(out, matches!(acc2, Ok(v) if close(v, if n == 0 { 0.0 } else { 1.0 })), "accuracy(a, a) = {acc2:?}");
                // binary f1
                let tp = pa.iter().zip(pb).filter(|(p, t)| **p && **t).count();
                let fp = pa.iter().zip(pb).filter(|(p, t)| **p && !**t).count();
                let fn_ = pa.iter().zip(pb).filter(|(p, t)| !**p && **t).count();
                let want = fbeta(tp, fp, fn_, beta);
                let got = metrics::binary_f1(pa, pb, beta);
                ensure!(out, matches!(got, Ok(v) if close(v.0, want.0) && close(v.1, want.1) && close(v.2, want.2)), "binary_f1 = {got:?}, formula {want:?}");
                if n > 0 {
                    ensure!(out, metrics::binary_f1(&pa[1..], pb, beta).is_err() && metrics::accuracy(&a[1..], b).is_err(), "length mismatch accepted");
                }
                // mean edit distances
                let mut sum = 0.0;
                let mut sum_n = 0.0;
                let mut comparable = true;
                for (x, y) in a.iter().zip(b) {
                    let once = |s: &str| normalize(&clean(s, true), Normalization::NFKC, true);
                    if once(x) != norm(x) || once(y) != norm(y) {
                        comparable = false;
                    }
                    let (nx, ny) = (norm(x), norm(y));
                    let (cx, cy) = (gen::clusters(&nx, g), gen::clusters(&ny, g));
                    let d = model::ref_distance(&cx, &cy, false, false) as f64;
                    sum += d;
                    let m = cx.len().max(cy.len());
                    sum_n += if m == 0 { 0.0 } else { d / m as f64 };
                }
                let med = metrics::mean_edit_distance(a, b, g);
                let mned = metrics::mean_normalized_edit_distance(a, b, g);
                ensure!(out, matches!(med, Ok(v) if v.is_finite() && v >= 0.0), "mean_edit_distance = {med:?}");
                ensure!(out, matches!(mned, Ok(v) if in_unit(v)), "mean_normalized_edit_distance = {mned:?} not in [0,1] for {a:?} {b:?}");
                if comparable {
                    let d = n.max(1) as f64;
                    ensure!(out, matches!(med, Ok(v) if close(v, sum / d)), "mean_edit_distance = {med:?}, formula {}", sum / d);
                    ensure!(out, matches!(mned, Ok(v) if close(v, sum_n / d)), "mean_normalized_edit_distance = {mned:?}, formula {}", sum_n / d);
                } else {
                    out.label("nfkc_space");
                }
                out.nontrivial = n >= 2 && a != b;
            }
        }
        out
    }
}
