//! C15 — spelling corruption makes one bounded edit and never touches protected positions.
use super::common::work_dir;
use crate::engine::*;
use crate::ensure;
use crate::gen;
use proptest::prelude::*;
use proptest::sample::select;
use rand::SeedableRng;
use rand_chacha::ChaCha8Rng;
use serde::{Deserialize, Serialize};
use std::borrow::Cow;
use std::collections::{BTreeSet, HashMap, HashSet};
use text_utils::corrupt::{
    edit_word, DeleteEdits, EditsAndWeights, GetEdits, InsertEdits, ReplaceEdits, SwapEdits,
};
use text_utils::data::preprocessing::{
    preprocessing, Part, PreprocessingFnConfig, SpellingCorruptionMode,
};
use text_utils::data::{TextDataInfo, TrainData};
use text_utils::unicode::CharString as CS;

type Edits = Vec<(String, u8)>; // (string, weight 1..=4)

#[derive(Debug, Clone, Serialize, Deserialize)]
pub struct Tables {
    /// ((prev, next), edits)
    pub insert: Vec<((String, String), Edits)>,
    /// ((prev, cur, next), edits)
    pub replace: Vec<((String, String, String), Edits)>,
    /// providers that match every position with these edits instead of the context tables
    pub mock: bool,
}

#[derive(Debug, Clone, Serialize, Deserialize)]
pub struct Case {
    pub word: String,
    pub graphemes: bool,
    /// bit 0 insert, 1 delete, 2 replace, 3 swap
    pub kinds: u8,
    pub tables: Tables,
    pub full_delete: bool,
    /// characters that may be deleted / swapped (empty = all)
    pub deletable: Vec<String>,
    pub swappable: Vec<String>,
    pub exclude: Vec<usize>,
    pub seed: u64,
    pub chain: usize,
    /// additionally run corrupt_spelling end to end on this sentence
    pub sentence: Option<String>,
}

pub struct C15;

const ALPHA: &[&str] = &["a", "b", "c", "d"];
const ALPHA_MB: &[&str] = &["a", "b", "c", "d", "ä", "中"];
// pool clusters only: concatenations re-segment into themselves
// "\r\n" is one extended grapheme cluster made of two ASCII bytes
const ALPHA_G: &[&str] = &["a", "b", "c", "d", "ä", "e\u{301}", "👍🏽", "🇩🇪", "\r\n"];

// grapheme mode, totality only: units that fuse with their neighbours (regional indicators, jamo,
// a lone combining mark, a cluster ending in ZWJ)
const ALPHA_H: &[&str] = &["a", "b", "🇩", "🇪", "\u{1100}", "\u{1161}", "\u{301}", "👩\u{200d}", "😀"];

pub(crate) fn alpha(g: bool, mb: bool) -> &'static [&'static str] {
    if g && mb {
        ALPHA_H
    } else if g {
        ALPHA_G
    } else if mb {
        ALPHA_MB
    } else {
        ALPHA
    }
}

fn edits(al: &'static [&'static str]) -> BoxedStrategy<Edits> {
    proptest::collection::vec(
        (
            proptest::collection::vec(select(al), 0..=3).prop_map(|v| v.concat()),
            1u8..=4,
        ),
        1..=3,
    )
    .boxed()
}

fn tables(al: &'static [&'static str]) -> BoxedStrategy<Tables> {
    let ctx = move |bow: bool, eow: bool| {
        let mut v: Vec<String> = al.iter().map(|s| s.to_string()).collect();
        if bow {
            v.push("<bow>".into());
            v.push("<bow>".into());
        }
        if eow {
            v.push("<eow>".into());
            v.push("<eow>".into());
        }
        select(v)
    };
    (
        proptest::collection::vec(((ctx(true, false), ctx(false, true)), edits(al)), 0..=10),
        proptest::collection::vec(
            ((ctx(true, false), select(al).prop_map(str::to_string), ctx(false, true)), edits(al)),
            0..=14,
        ),
        prop_oneof![4 => Just(false), 1 => Just(true)],
    )
        .prop_map(|(insert, replace, mock)| Tables { insert, replace, mock })
        .boxed()
}

struct MockEdits(EditsAndWeights);
impl<'s> GetEdits<'s> for MockEdits {
    fn get_edits<'a: 's>(&'s self, _: &CS<'a>, _: &usize) -> Option<&'s EditsAndWeights> {
        Some(&self.0)
    }
}

fn to_ew(e: &Edits) -> EditsAndWeights {
    (e.iter().map(|x| x.0.clone()).collect(), e.iter().map(|x| x.1 as f64).collect())
}

/// last entry for a context wins (HashMap insert semantics)
fn insert_map(t: &Tables) -> HashMap<(String, String), Edits> {
    t.insert.iter().cloned().collect()
}
fn replace_map(t: &Tables) -> HashMap<(String, String, String), Edits> {
    t.replace.iter().cloned().collect()
}

fn shift_set(e: &BTreeSet<usize>, from_incl: usize, by: isize) -> BTreeSet<usize> {
    e.iter()
        .map(|&x| if x >= from_incl { (x as isize + by) as usize } else { x })
        .collect()
}

/// does a single-edit explanation exist for (w, e) -> (w2, e2)?
#[allow(clippy::too_many_arguments)]
fn explain(c: &Case, w: &str, e: &BTreeSet<usize>, w2: &str, e2: &BTreeSet<usize>) -> Option<&'static str> {
    let g = c.graphemes;
    let wc: Vec<&str> = gen::clusters(w, g);
    let n = wc.len();
    if w2 == w && e2 == e {
        return Some("unchanged");
    }
    let len = |s: &str| gen::clusters(s, g).len();
    let cat = |parts: &[&str]| parts.concat();
    let ins_edits = |i: usize| -> Option<Edits> {
        if c.tables.mock {
            return c.tables.insert.first().map(|x| x.1.clone());
        }
        let prev = if i > 0 { wc[i - 1] } else { "<bow>" };
        let next = if i < n { wc[i] } else { "<eow>" };
        insert_map(&c.tables).get(&(prev.to_string(), next.to_string())).cloned()
    };
    let rep_edits = |i: usize| -> Option<Edits> {
        if c.tables.mock {
            return c.tables.replace.first().map(|x| x.1.clone());
        }
        let prev = if i > 0 { wc[i - 1] } else { "<bow>" };
        let next = if i + 1 < n { wc[i + 1] } else { "<eow>" };
        replace_map(&c.tables)
            .get(&(prev.to_string(), wc[i].to_string(), next.to_string()))
            .cloned()
    };
    if c.kinds & 1 != 0 {
        for i in 0..=n {
            if e.contains(&i) || (i > 0 && e.contains(&(i - 1))) {
                continue;
            }
            if let Some(ed) = ins_edits(i) {
                for (s, _) in ed {
                    let l = len(&s);
                    let cand = format!("{}{}{}", cat(&wc[..i]), s, cat(&wc[i..]));
                    let mut es = shift_set(e, i, l as isize);
                    es.extend(i..i + l);
                    if cand == w2 && &es == e2 {
                        return Some("insert");
                    }
                }
            }
        }
    }
    if c.kinds & 2 != 0 && (c.full_delete || n > 1) {
        for i in 0..n {
            if e.contains(&i) || !(c.deletable.is_empty() || c.deletable.iter().any(|d| d == wc[i])) {
                continue;
            }
            let cand = format!("{}{}", cat(&wc[..i]), cat(&wc[i + 1..]));
            let es = shift_set(e, i + 1, -1);
            if cand == w2 && &es == e2 {
                return Some("delete");
            }
        }
    }
    if c.kinds & 4 != 0 {
        for i in 0..n {
            if e.contains(&i) {
                continue;
            }
            if let Some(ed) = rep_edits(i) {
                for (s, _) in ed {
                    let l = len(&s);
                    let cand = format!("{}{}{}", cat(&wc[..i]), s, cat(&wc[i + 1..]));
                    let mut es = shift_set(e, i + 1, l as isize - 1);
                    es.extend(i..i + l);
                    if cand == w2 && &es == e2 {
                        return Some("replace");
                    }
                }
            }
        }
    }
    if c.kinds & 8 != 0 && n > 1 {
        for i in 0..n - 1 {
            if e.contains(&i) || e.contains(&(i + 1)) {
                continue;
            }
            let ok = c.swappable.is_empty()
                || (c.swappable.iter().any(|d| d == wc[i]) && c.swappable.iter().any(|d| d == wc[i + 1]));
            if !ok {
                continue;
            }
            let cand = format!("{}{}{}{}", cat(&wc[..i]), wc[i + 1], wc[i], cat(&wc[i + 2..]));
            let mut es = e.clone();
            es.insert(i);
            es.insert(i + 1);
            if cand == w2 && &es == e2 {
                return Some("swap");
            }
        }
    }
    None
}

impl Prop for C15 {
    type Case = Case;
    const ID: &'static str = "C15";
    const FUZZ_TARGET: Option<&'static str> = Some("edit_word");
    const FUZZ_RUNS: u64 = 8000000;
    fn fuzz_decode(bytes: &[u8]) -> Option<Case> {
        crate::fuzzdec::c15(bytes)
    }
    const RULE: &'static str = "words of 0-8 characters over a 4-letter alphabet (+ multi-byte letters; closed-pool clusters in grapheme mode, or - for `never panics` only - an alphabet of units that fuse with their neighbours) x non-empty subsets of {insert, delete, replace, swap} x the real context-table InsertEdits/ReplaceEdits providers with generated tables over the alphabet plus <bow>/<eow> (edit strings of 0-3 characters, weights 1-4) or always-matching mock providers x delete/swap predicates x exclusion sets x ChaCha8 seeds x chains of 1-6 edits feeding the exclusion set back in; optionally corrupt_spelling end to end on a sentence. Oracle: no panic (overflow checks on); for every step there must exist a single-edit explanation of an enabled kind reproducing both the new word and the new exclusion set; excluded characters keep their identity; exclusion set within the new word. Non-trivial: a step changed the word while the exclusion set was non-empty. Distinct = distinct serialised case.";
    const ESSENTIAL: &'static [&'static str] = &["insert", "delete", "replace", "swap", "unchanged", "edit_at_0", "edit_at_last", "empty_word", "empty_replacement", "multi_char_insert", "chain>=3", "real_tables", "sentence", "unstable_totality", "word_of_250_or_more_characters"];

    fn budget(tier: Tier) -> Budget {
        match tier {
            Tier::Quick => Budget { cases: 10000, shards: 16 },
            Tier::Thorough => Budget { cases: 360000, shards: 16 },
        }
    }

    fn strategy(_tier: Tier, _shard: u32) -> BoxedStrategy<Case> {
        (any::<bool>(), any::<bool>())
            .prop_flat_map(|(g, mb)| {
                let al = alpha(g, mb);
                (
                    prop_oneof![16 => proptest::collection::vec(select(al), 0..=8).prop_map(|v| v.concat()), 1 => proptest::collection::vec(select(al), 9..=30).prop_map(|v| v.concat()),
                        1 => gen::with_giant(proptest::collection::vec(select(al), 0..=6).prop_map(|v| v.concat()).boxed(), 2),
                        // words of about 256 characters (index types, block sizes)
                        1 => (250usize..=262).prop_flat_map(move |n| proptest::collection::vec(select(al), n)).prop_map(|v| v.concat())],
                    1u8..16,
                    tables(al),
                    any::<bool>(),
                    prop_oneof![2 => Just(vec![]), 1 => proptest::collection::vec(select(al).prop_map(str::to_string), 1..=3)],
                    prop_oneof![2 => Just(vec![]), 1 => proptest::collection::vec(select(al).prop_map(str::to_string), 1..=3)],
                    proptest::collection::vec(prop_oneof![8 => 0usize..8, 1 => 8usize..30, 1 => 240usize..262], 0..=4),
                    any::<u64>(),
                    prop_oneof![16 => 1usize..=6, 1 => 7usize..=14],
                    prop_oneof![
                        5 => Just(None),
                        1 => proptest::collection::vec(proptest::collection::vec(select(al), 1..=5).prop_map(|v| v.concat()), 1..=4)
                            .prop_map(|w| Some(w.join(" "))),
                    ],
                )
                    .prop_map(move |(word, kinds, tables, full_delete, deletable, swappable, exclude, seed, chain, sentence)| {
                        let n = gen::clusters(&word, g).len();
                        let mut exclude: Vec<usize> = exclude.into_iter().filter(|e| *e < n).collect();
                        exclude.sort();
                        exclude.dedup();
                        Case { word, graphemes: g, kinds, tables, full_delete, deletable, swappable, exclude, seed, chain, sentence }
                    })
            })
            .boxed()
    }

    fn assumptions() -> Vec<String> {
        vec![
            "insert at i needs i and i-1 outside the exclusion set (an excluded character is not used as the left context of an insertion), replace/delete at i need i outside it, swap needs i and i+1 outside it".into(),
            "grapheme mode asserts the single-edit explanation on closed-pool clusters only, where concatenation never re-segments (KF4 is the recorded finding outside that domain); words and edit strings over units that fuse are run for `never panics`".into(),
            "harness built with overflow-checks = true, like `cargo test`".into(),
            "end-to-end corrupt_spelling: totality, determinism in (text, seed), and word-count bound only".into(),
        ]
    }

    fn check(c: &Case, strict: bool) -> Outcome {
        let mut out = Outcome::new();
        let g = c.graphemes;
        let ins_real = InsertEdits {
            insertions: insert_map(&c.tables)
                .into_iter()
                .map(|((p, n), e)| ((Cow::Owned(p), Cow::Owned(n)), to_ew(&e)))
                .collect(),
        };
        let rep_real = ReplaceEdits {
            replacements: replace_map(&c.tables)
                .into_iter()
                .map(|((p, cur, n), e)| ((Cow::Owned(p), Cow::Owned(cur), Cow::Owned(n)), to_ew(&e)))
                .collect(),
        };
        let ins_mock = c.tables.insert.first().map(|x| MockEdits(to_ew(&x.1)));
        let rep_mock = c.tables.replace.first().map(|x| MockEdits(to_ew(&x.1)));
        let deletable = c.deletable.clone();
        let swappable = c.swappable.clone();
        let delete = DeleteEdits {
            full_delete: c.full_delete,
            can_delete: move |s: &str| deletable.is_empty() || deletable.iter().any(|d| d == s),
        };
        let swap = SwapEdits {
            can_swap: move |a: &str, b: &str| {
                swappable.is_empty() || (swappable.iter().any(|d| d == a) && swappable.iter().any(|d| d == b))
            },
        };
        out.label_if(!c.tables.mock, "real_tables");
        out.label_if(c.word.is_empty(), "empty_word");
        out.label_if(c.chain >= 3, "chain>=3");
        out.label_if(gen::clusters(&c.word, g).len() >= 250, "word_of_250_or_more_characters");
        let mut rng = ChaCha8Rng::seed_from_u64(c.seed);
        let mut word = c.word.clone();
        let mut excl: BTreeSet<usize> = c.exclude.iter().copied().collect();
        // with mock providers a kind whose mock table is missing is disabled
        let mut kinds = c.kinds;
        if c.tables.mock {
            if ins_mock.is_none() {
                kinds &= !1;
            }
            if rep_mock.is_none() {
                kinds &= !4;
            }
        }
        let eff = Case { kinds, ..c.clone() };
        // grapheme mode with units outside the closed pool: concatenation re-segments, the
        // single-edit explanation is not defined (KF4 lives there); such cases run for "never
        // panics" only, with the returned exclusion set clipped to the new word before it is fed back
        let in_pool = |t: &str| gen::clusters(t, true).iter().all(|u| ALPHA_G.contains(u) || gen::CLOSED_POOL.contains(u) || *u == gen::GIANT);
        let totality_only = g
            && !strict
            && !(in_pool(&c.word)
                && c.tables.insert.iter().all(|(_, e)| e.iter().all(|(t, _)| in_pool(t)))
                && c.tables.replace.iter().all(|(_, e)| e.iter().all(|(t, _)| in_pool(t))));
        if totality_only {
            out.label("unstable_totality");
            out.label("kf4_class_excluded_from_explanation");
        }
        for step in 0..c.chain {
            let before = word.clone();
            let before_e = excl.clone();
            let ex_in: HashSet<usize> = excl.iter().copied().collect();
            let del = if kinds & 2 != 0 { Some(&delete) } else { None };
            let swp = if kinds & 8 != 0 { Some(&swap) } else { None };
            let (w2, e2) = if c.tables.mock {
                edit_word(
                    &before,
                    g,
                    &mut rng,
                    if kinds & 1 != 0 { ins_mock.as_ref() } else { None },
                    del,
                    if kinds & 4 != 0 { rep_mock.as_ref() } else { None },
                    swp,
                    Some(ex_in),
                )
            } else {
                edit_word(
                    &before,
                    g,
                    &mut rng,
                    if kinds & 1 != 0 { Some(&ins_real) } else { None },
                    del,
                    if kinds & 4 != 0 { Some(&rep_real) } else { None },
                    swp,
                    Some(ex_in),
                )
            };
            let e2: BTreeSet<usize> = e2.into_iter().collect();
            let n2 = gen::clusters(&w2, g).len();
            if totality_only {
                word = w2;
                excl = e2.into_iter().filter(|x| *x < n2).collect();
                continue;
            }
            ensure!(out, e2.iter().all(|x| *x < n2), "step {step}: exclusion set {e2:?} not within the new word {w2:?} ({n2} characters); before: {before:?} {before_e:?}");
            let Some(kind) = explain(&eff, &before, &before_e, &w2, &e2) else {
                out.fail(format!(
                    "step {step}: ({before:?}, {before_e:?}) -> ({w2:?}, {e2:?}) is not explained by one edit of an enabled kind (kinds {kinds:#06b}, graphemes {g})"
                ));
                return out;
            };
            out.label(kind);
            if kind != "unchanged" {
                if !before_e.is_empty() {
                    out.nontrivial = true;
                }
                let bc = gen::clusters(&before, g);
                let ac = gen::clusters(&w2, g);
                // where did the edit happen (first differing position)
                let first_diff = bc.iter().zip(ac.iter()).position(|(x, y)| x != y).unwrap_or(bc.len().min(ac.len()));
                out.label_if(first_diff == 0, "edit_at_0");
                out.label_if(first_diff + 1 >= bc.len(), "edit_at_last");
                out.label_if(kind == "replace" && ac.len() < bc.len(), "empty_replacement");
                out.label_if(kind == "insert" && ac.len() >= bc.len() + 2, "multi_char_insert");
            }
            word = w2;
            excl = e2;
        }
        if let Some(sentence) = &c.sentence {
            out.label("sentence");
            // 3-gram file for the artificial mode: "prev cur next\tfreq"
            let path = work_dir().join("c15.chars");
            let mut lines = String::new();
            let mut seen = HashSet::new();
            for ((p, cur, n), e) in &c.tables.replace {
                // the file is line- and space-separated: characters containing whitespace (the
                // CRLF cluster of the alphabet) cannot be written into it
                if [p, cur, n].iter().any(|x| x.chars().any(char::is_whitespace)) {
                    continue;
                }
                if seen.insert((p.clone(), cur.clone(), n.clone())) {
                    lines.push_str(&format!("{p} {cur} {n}\t{}\n", e[0].1 as usize * 100));
                }
            }
            if lines.is_empty() {
                lines.push_str("a b c\t5\n");
            }
            std::fs::write(&path, lines).expect("write char file");
            let cfg = PreprocessingFnConfig::SpellingCorruption(
                Part::Input,
                0.7,
                c.full_delete,
                SpellingCorruptionMode::Artificial(0.4, 2.0, Some(path)),
            );
            let f = preprocessing(cfg);
            let run = |seed: u64| -> Result<String, String> {
                let d = TrainData::new(sentence.clone(), None);
                let info = TextDataInfo { seed, ..Default::default() };
                f(d, info).map(|(d, _)| d.verif_input().to_string()).map_err(|e| e.to_string())
            };
            let a = run(c.seed);
            let b = run(c.seed);
            ensure!(out, a == b, "corrupt_spelling is not deterministic in (text, seed): {a:?} vs {b:?}");
            match a {
                Ok(s) => {
                    let nw = sentence.split_whitespace().count();
                    ensure!(out, s.split_whitespace().count() <= nw * 12 + 1 && s == s.trim(), "corrupt_spelling output malformed: {s:?}");
                }
                Err(e) => {
                    out.fail(format!("corrupt_spelling failed: {e}"));
                    return out;
                }
            }
        }
        out
    }
}
