//! C11 — clean() produces the whitespace normal form; word boundaries match it.
use crate::engine::*;
use crate::ensure;
use crate::gen;
use proptest::prelude::*;
use serde::{Deserialize, Serialize};
use text_utils::text::{clean, word_boundaries};
use text_utils::whitespace::{full, remove};

#[derive(Debug, Clone, Serialize, Deserialize)]
pub struct Case {
    pub s: String,
    pub graphemes: bool,
}

pub struct C11;

impl Prop for C11 {
    type Case = Case;
    const ID: &'static str = "C11";
    const FUZZ_TARGET: Option<&'static str> = Some("clean_norm");
    const FUZZ_RUNS: u64 = 4000000;
    fn fuzz_decode(bytes: &[u8]) -> Option<Case> {
        crate::fuzzdec::c11(bytes)
    }
    const RULE: &'static str = "code-point mode: arbitrary Unicode strings from fragment pools (every White_Space code point, CRLF, NBSP, ideographic space, zero-width non-spaces, combining marks, hazards, fully random strings); grapheme mode: segmentation-stable strings built from the closed cluster pool and whitespace fragments (asserting), arbitrary strings: those in which no cluster mixes whitespace with non-whitespace code points assert every clause that does not re-segment an output (normal form, word_boundaries, remove, full), the rest run for totality. Oracle: clean(s) == s.split_whitespace().join(\" \") (std as the independent model) and its consequences, idempotence, word_boundaries against an independent scan over the character sequence, remove/full against filtered joins. Non-trivial: >= 2 whitespace runs one of which contains a non-ASCII whitespace or CRLF, and a multi-byte non-whitespace character. Distinct = distinct serialised case.";
    const ESSENTIAL: &'static [&'static str] = &["graphemes_stable", "code_points", "leading_ws", "trailing_ws", "non_ascii_ws", "crlf", "empty", "only_ws", "unstable_totality", "unstable_mixed_free", "longer_than_4000_bytes"];

    fn budget(tier: Tier) -> Budget {
        match tier {
            Tier::Quick => Budget { cases: 100000, shards: 16 },
            Tier::Thorough => Budget { cases: 6400000, shards: 16 },
        }
    }

    fn strategy(_tier: Tier, _shard: u32) -> BoxedStrategy<Case> {
        any::<bool>()
            .prop_flat_map(|g| {
                // one text in ~3000: a byte length at or next to 256 ... 65536 (or a whitespace run of that size)
                let t = if g {
                    prop_oneof![2000 => gen::stable_text(16), 330 => gen::text(10), 500 => gen::hazard_text(10), 165 => gen::stable_text(120), 1 => gen::sized_text(gen::stable_text(6), true)].boxed()
                } else {
                    prop_oneof![2800 => gen::text(14), 185 => gen::text(100), 1 => gen::sized_text(gen::text(4).boxed(), false)].boxed()
                };
                t.prop_map(move |s| Case { s, graphemes: g })
            })
            .boxed()
    }

    fn assumptions() -> Vec<String> {
        vec![
            "grapheme mode: all assertions on segmentation-stable strings; on unstable strings without a mixed cluster (inside the property's quantifier) everything except idempotence and the preserved cluster sequence, which re-segment the output (KF1 is the recorded finding there); strings with a mixed cluster are run for totality".into(),
            "std::str::split_whitespace (Unicode White_Space) is the reference for what a word is".into(),
        ]
    }

    fn check(c: &Case, strict: bool) -> Outcome {
        let mut out = Outcome::new();
        let g = c.graphemes;
        let s = c.s.as_str();
        // the same text in the other unit first: an answer must not depend on what was asked before
        let _ = (word_boundaries(s, !g), full(s, !g));
        let cleaned = clean(s, g);
        let _ = clean(s, !g);
        let wb = word_boundaries(s, g);
        let _ = remove(s, !g);
        let rem = remove(s, g);
        let ful = full(s, g);
        // Grapheme mode outside the segmentation-stable domain: strings in which no cluster
        // mixes whitespace with non-whitespace code points are still inside the property's
        // quantifier. There the clauses that speak about `s` alone are asserted (normal form of
        // clean(s), word boundaries, remove, full); the clauses that re-segment an *output*
        // (idempotence, preserved cluster sequence) are where KF1 lives and are left out.
        let mixed_free = gen::clusters(s, g).iter().all(|u| u.chars().all(char::is_whitespace) || !u.chars().any(char::is_whitespace));
        let unstable = g && !strict && !gen::is_stable(s);
        if unstable && !mixed_free {
            out.label("unstable_totality");
            return out;
        }
        if unstable {
            out.label("unstable_mixed_free");
            out.label("kf1_class_excluded_from_resegmentation_clauses");
        } else {
            out.label(if g { "graphemes_stable" } else { "code_points" });
        }
        out.label_if(s.len() >= 4000, "longer_than_4000_bytes");
        out.label_if(s.is_empty(), "empty");
        out.label_if(!s.is_empty() && s.chars().all(char::is_whitespace), "only_ws");
        out.label_if(s.chars().next().is_some_and(char::is_whitespace), "leading_ws");
        out.label_if(s.chars().last().is_some_and(char::is_whitespace), "trailing_ws");
        let non_ascii_ws = s.chars().any(|ch| ch.is_whitespace() && !ch.is_ascii());
        out.label_if(non_ascii_ws, "non_ascii_ws");
        out.label_if(s.contains("\r\n"), "crlf");
        let words: Vec<&str> = s.split_whitespace().collect();
        let mut runs = 0;
        let mut in_run = false;
        for ch in s.chars() {
            if ch.is_whitespace() && !in_run {
                runs += 1;
            }
            in_run = ch.is_whitespace();
        }
        out.nontrivial = runs >= 2 && (non_ascii_ws || s.contains("\r\n")) && s.chars().any(|ch| !ch.is_whitespace() && ch.len_utf8() > 1);

        let want = words.join(" ");
        ensure!(out, cleaned == want, "clean({s:?}, graphemes={g}) = {cleaned:?}, expected {want:?}");
        ensure!(out, !cleaned.starts_with(char::is_whitespace) && !cleaned.ends_with(char::is_whitespace), "leading/trailing whitespace in {cleaned:?}");
        ensure!(out, !cleaned.chars().any(|ch| ch.is_whitespace() && ch != ' ') && !cleaned.contains("  "), "separator other than a single space in {cleaned:?}");
        let units = |t: &str| -> Vec<String> {
            gen::clusters(t, g).into_iter().filter(|u| !u.chars().all(char::is_whitespace)).map(str::to_string).collect()
        };
        if !unstable {
            let again = clean(&cleaned, g);
            ensure!(out, again == cleaned, "clean is not idempotent: {cleaned:?} -> {again:?}");
            // sequence of non-whitespace characters preserved
            ensure!(out, units(s) == units(&cleaned), "clean changed the sequence of non-whitespace characters of {s:?}");
        } else {
            // code-point level: always preserved
            let cps = |t: &str| t.chars().filter(|ch| !ch.is_whitespace()).collect::<String>();
            ensure!(out, cps(s) == cps(&cleaned), "clean changed the non-whitespace code points of {s:?}");
        }
        // word boundaries: independent scan
        let cl = gen::clusters(s, g);
        let mut want_wb: Vec<(usize, usize)> = vec![];
        let mut start: Option<usize> = None;
        for (i, u) in cl.iter().enumerate() {
            let ws = u.chars().all(char::is_whitespace);
            match (ws, start) {
                (false, None) => start = Some(i),
                (true, Some(st)) => {
                    want_wb.push((st, i));
                    start = None;
                }
                _ => {}
            }
        }
        if let Some(st) = start {
            want_wb.push((st, cl.len()));
        }
        ensure!(out, wb == want_wb, "word_boundaries({s:?}, graphemes={g}) = {wb:?}, independent scan gives {want_wb:?}");
        let sliced: Vec<String> = wb.iter().map(|(a, b)| cl[*a..*b].concat()).collect();
        ensure!(out, sliced == words, "slicing by word_boundaries gives {sliced:?}, words are {words:?}");
        // remove / full
        let nonws = units(s);
        ensure!(out, rem == nonws.concat(), "remove({s:?}) = {rem:?}");
        ensure!(out, ful == nonws.join(" "), "full({s:?}) = {ful:?}");
        out
    }
}
