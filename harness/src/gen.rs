//! Shared generators: fragment pools for Unicode text, whitespace, closed grapheme-cluster pool.
#![allow(dead_code)]
use proptest::prelude::*;
use proptest::sample::select;
use unicode_segmentation::UnicodeSegmentation;

/// every code point with the Unicode White_Space property
pub const WS_CHARS: &[char] = &[
    '\t', '\n', '\u{b}', '\u{c}', '\r', ' ', '\u{85}', '\u{a0}', '\u{1680}', '\u{2000}',
    '\u{2001}', '\u{2002}', '\u{2003}', '\u{2004}', '\u{2005}', '\u{2006}', '\u{2007}',
    '\u{2008}', '\u{2009}', '\u{200a}', '\u{2028}', '\u{2029}', '\u{202f}', '\u{205f}',
    '\u{3000}',
];

pub const ASCII_FRAGS: &[&str] = &[
    "a", "b", "c", "ab", "the", "cat", "x", "Z", "A", "0", "42", ".", ",", "-", "_", "(", ")", "[",
    "]", "*", "+", "?", "\\", "|", "^", "$", "{", "}", "'", "\"", "<", ">", "/", "&", "!", ":",
    "it's", "unit-test", "e", "E",
];

pub const MULTI_FRAGS: &[&str] = &[
    "ä", "é", "ß", "ñ", "中", "ー", "文字", "😀", "𝄞", "\u{FEFF}", "\u{200B}", "\u{2060}",
    "\u{FFFF}", "İ", "Σ", "ς", "Ǆ", "ǆ", "ö", "日本", "\u{10FFFF}", "ǵ",
];

pub const WS_FRAGS: &[&str] = &[
    " ", " ", " ", "\t", "\n", "\r\n", "\r", "  ", " \t ", "\n\n", "\u{a0}", "\u{3000}", "\u{2003}",
    "\u{85}", "\u{2028}", "\u{2029}", "\u{202f}", "\u{205f}", "\u{1680}", "\u{b}", "\u{c}",
    "\u{2000}", "\u{2009}", "\u{200a}", " \u{a0} ", "\r\n\r\n",
];

pub const COMBINING_FRAGS: &[&str] = &[
    "e\u{301}", "a\u{323}\u{308}", "👍🏽", "❤\u{fe0f}", "👩\u{200d}👩\u{200d}👧", "🇩🇪", "한",
    "\u{1100}\u{1161}", "नमस्ते", "स्", "o\u{308}", "🏳\u{fe0f}\u{200d}🌈", "กำ",
];

/// malformed / segmentation-unstable pieces (used freely in code-point mode and for totality)
pub const HAZARD_FRAGS: &[&str] = &[
    "\u{301}", "\u{200d}", "🇩", "\u{600}", "\u{1161}", "\u{fe0f}", "\u{308}", "\u{11a8}", "🇪",
];

/// characters whose NFKC form starts with a space, plus other compatibility characters
pub const NFKC_FRAGS: &[&str] = &[
    "´", "¨", "¯", "¸", "˘", "˙", "˚", "˛", "˜", "˝", "ͺ", "΄", "‗", "ﬁ", "①", "Ⅻ", "…", "㎏", "ｱ",
    "½", "ª", "\u{2002}x",
];

/// closed cluster pool for grapheme mode: every element is one extended grapheme cluster, does
/// not start with an Extend/SpacingMark/ZWJ character, does not end with ZWJ/Prepend, and any
/// concatenation of elements (optionally separated by whitespace) re-segments into exactly the
/// elements (verified by `self_test_pool`).
pub const CLOSED_POOL: &[&str] = &[
    "a", "b", "c", "x", "Z", "1", ".", "-", "ä", "é", "e\u{301}", "a\u{323}\u{308}", "中", "字",
    "😀", "👍🏽", "❤\u{fe0f}", "👩\u{200d}👩\u{200d}👧", "🇩🇪", "한", "𝄞", "ß", "o\u{308}", "A",
];

/// one extended grapheme cluster of 261 UTF-8 bytes (a base letter with 130 combining marks):
/// clusters have no upper size, unlike code points; a stable cluster like the pool's
pub const GIANT: &str = "e\u{301}\u{301}\u{301}\u{301}\u{301}\u{301}\u{301}\u{301}\u{301}\u{301}\u{301}\u{301}\u{301}\u{301}\u{301}\u{301}\u{301}\u{301}\u{301}\u{301}\u{301}\u{301}\u{301}\u{301}\u{301}\u{301}\u{301}\u{301}\u{301}\u{301}\u{301}\u{301}\u{301}\u{301}\u{301}\u{301}\u{301}\u{301}\u{301}\u{301}\u{301}\u{301}\u{301}\u{301}\u{301}\u{301}\u{301}\u{301}\u{301}\u{301}\u{301}\u{301}\u{301}\u{301}\u{301}\u{301}\u{301}\u{301}\u{301}\u{301}\u{301}\u{301}\u{301}\u{301}\u{301}\u{301}\u{301}\u{301}\u{301}\u{301}\u{301}\u{301}\u{301}\u{301}\u{301}\u{301}\u{301}\u{301}\u{301}\u{301}\u{301}\u{301}\u{301}\u{301}\u{301}\u{301}\u{301}\u{301}\u{301}\u{301}\u{301}\u{301}\u{301}\u{301}\u{301}\u{301}\u{301}\u{301}\u{301}\u{301}\u{301}\u{301}\u{301}\u{301}\u{301}\u{301}\u{301}\u{301}\u{301}\u{301}\u{301}\u{301}\u{301}\u{301}\u{301}\u{301}\u{301}\u{301}\u{301}\u{301}\u{301}\u{301}\u{301}\u{301}\u{301}\u{301}\u{301}\u{301}\u{301}\u{301}";

pub fn is_ws_str(s: &str) -> bool {
    !s.is_empty() && s.chars().all(char::is_whitespace)
}

pub fn clusters(s: &str, graphemes: bool) -> Vec<&str> {
    if graphemes {
        s.graphemes(true).collect()
    } else {
        s.char_indices()
            .map(|(i, c)| &s[i..i + c.len_utf8()])
            .collect()
    }
}

/// segmentation-stable (DESIGN §3.2): no mixed cluster; the non-whitespace clusters
/// re-segment to themselves when concatenated directly and when joined by single spaces.
pub fn is_stable(s: &str) -> bool {
    let cl: Vec<&str> = s.graphemes(true).collect();
    for c in &cl {
        let any_ws = c.chars().any(char::is_whitespace);
        let all_ws = c.chars().all(char::is_whitespace);
        if any_ws && !all_ws {
            return false;
        }
    }
    let non_ws: Vec<&str> = cl
        .iter()
        .copied()
        .filter(|c| !c.chars().all(char::is_whitespace))
        .collect();
    let cat = non_ws.concat();
    if cat.graphemes(true).collect::<Vec<_>>() != non_ws {
        return false;
    }
    let joined = non_ws.join(" ");
    let mut expect: Vec<&str> = vec![];
    for (i, c) in non_ws.iter().enumerate() {
        if i > 0 {
            expect.push(" ");
        }
        expect.push(c);
    }
    joined.graphemes(true).collect::<Vec<_>>() == expect
}

pub fn self_test_pool() -> Result<(), String> {
    for c in WS_CHARS {
        if !c.is_whitespace() {
            return Err(format!("{c:?} is not whitespace"));
        }
    }
    if GIANT.len() < 256 {
        return Err("the giant cluster is shorter than 256 bytes".into());
    }
    let pool: Vec<&str> = CLOSED_POOL.iter().copied().chain(std::iter::once(GIANT)).collect();
    for a in &pool {
        if a.graphemes(true).count() != 1 {
            return Err(format!("pool element {a:?} is not a single cluster"));
        }
        for b in &pool {
            let s = format!("{a}{b}");
            if s.graphemes(true).collect::<Vec<_>>() != vec![*a, *b] {
                return Err(format!("pool not closed for {a:?}+{b:?}"));
            }
            for w in [" ", "\t", "\r\n", "\u{a0}", "\u{3000}", "\u{2028}"] {
                let s = format!("{a}{w}{b}");
                if s.graphemes(true).collect::<Vec<_>>() != vec![*a, w, *b] {
                    return Err(format!("pool not closed for {a:?}+{w:?}+{b:?}"));
                }
            }
        }
    }
    Ok(())
}

pub fn ws_char() -> impl Strategy<Value = char> {
    prop_oneof![
        6 => Just(' '),
        4 => select(WS_CHARS),
    ]
}

/// whitespace run of `min..=max` characters ("\r\n" counts as two)
pub fn ws_run(min: usize, max: usize) -> impl Strategy<Value = String> {
    proptest::collection::vec(ws_char(), min..=max).prop_map(|v| v.into_iter().collect())
}

pub fn frag() -> impl Strategy<Value = String> {
    prop_oneof![
        8 => select(ASCII_FRAGS).prop_map(str::to_string),
        4 => select(MULTI_FRAGS).prop_map(str::to_string),
        5 => select(WS_FRAGS).prop_map(str::to_string),
        3 => select(COMBINING_FRAGS).prop_map(str::to_string),
        1 => select(HAZARD_FRAGS).prop_map(str::to_string),
        1 => select(NFKC_FRAGS).prop_map(str::to_string),
        1 => any::<char>().prop_map(|c| c.to_string()),
    ]
    .prop_flat_map(|f| prop_oneof![200 => Just(f), 1 => Just(GIANT.to_string())])
}

/// `s` with, in one case of `one_in`, the giant cluster inserted at a cluster boundary
pub fn with_giant(s: BoxedStrategy<String>, one_in: u32) -> BoxedStrategy<String> {
    prop_oneof![
        one_in - 1 => s.clone(),
        1 => (s, any::<u16>()).prop_map(|(t, i)| {
            let cl: Vec<&str> = t.graphemes(true).collect();
            let k = crate::engine::idx16(i, cl.len() + 1);
            format!("{}{}{}", cl[..k].concat(), GIANT, cl[k..].concat())
        }),
    ]
    .boxed()
}

/// arbitrary Unicode text (code-point domain): fragments, sometimes a fully random string
pub fn text(max_frags: usize) -> impl Strategy<Value = String> {
    prop_oneof![
        12 => proptest::collection::vec(frag(), 0..=max_frags).prop_map(|v| v.concat()),
        1 => any::<String>().prop_map(|s| s.chars().take(40).collect()),
    ]
}

/// text without hazard fragments and random characters, from given extra pool as well
pub fn text_with(extra: Vec<String>, max_frags: usize) -> impl Strategy<Value = String> {
    let extra2 = if extra.is_empty() { vec!["a".to_string()] } else { extra };
    proptest::collection::vec(
        prop_oneof![
            6 => frag(),
            5 => select(extra2),
        ],
        0..=max_frags,
    )
    .prop_map(|v| v.concat())
}

pub fn nonws_char() -> impl Strategy<Value = String> {
    prop_oneof![
        6 => select(ASCII_FRAGS).prop_map(|s| s.chars().next().unwrap().to_string()),
        3 => select(MULTI_FRAGS).prop_map(|s| s.chars().next().unwrap().to_string()),
        1 => select(HAZARD_FRAGS).prop_map(|s| s.chars().next().unwrap().to_string()),
        1 => select(NFKC_FRAGS).prop_map(|s| s.chars().next().unwrap().to_string()),
        1 => any::<char>().prop_filter("non-ws", |c| !c.is_whitespace()).prop_map(|c| c.to_string()),
    ]
    .prop_filter("non-ws", |s| !s.chars().any(char::is_whitespace))
}

pub fn stable_cluster() -> impl Strategy<Value = String> {
    prop_oneof![
        150 => select(CLOSED_POOL).prop_map(str::to_string),
        1 => Just(GIANT.to_string()),
    ]
}

/// one non-whitespace "character" for the given mode: a code point (anything) or a pool cluster
pub fn nonws_unit(graphemes: bool) -> BoxedStrategy<String> {
    if graphemes {
        stable_cluster().boxed()
    } else {
        nonws_char().boxed()
    }
}

/// clean text (single spaces, none leading/trailing): words of units of the given mode
pub fn clean_text(graphemes: bool, max_words: usize, max_word_len: usize) -> BoxedStrategy<String> {
    proptest::collection::vec(
        proptest::collection::vec(nonws_unit(graphemes), 1..=max_word_len).prop_map(|v| v.concat()),
        0..=max_words,
    )
    .prop_map(|w| w.join(" "))
    .boxed()
}

/// stable text with arbitrary whitespace runs between / around pool clusters (grapheme mode)
pub fn stable_text(max_units: usize) -> BoxedStrategy<String> {
    proptest::collection::vec(
        prop_oneof![
            5 => stable_cluster(),
            3 => select(WS_FRAGS).prop_map(str::to_string),
        ],
        0..=max_units,
    )
    .prop_map(|v| v.concat())
    .boxed()
}

/// grapheme mode outside the stable domain: pool clusters, whitespace and segmentation hazards
/// (lone regional indicators, jamo, ZWJ, combining marks) next to each other
pub fn hazard_text(max_units: usize) -> BoxedStrategy<String> {
    proptest::collection::vec(
        prop_oneof![
            3 => stable_cluster(),
            4 => select(HAZARD_FRAGS).prop_map(str::to_string),
            1 => select(COMBINING_FRAGS).prop_map(str::to_string),
            4 => select(WS_FRAGS).prop_map(str::to_string),
        ],
        0..=max_units,
    )
    .prop_map(|v| v.concat())
    .boxed()
}

/// hazards that do not attach to a preceding space (no Extend / SpacingMark / ZWJ first)
pub const HAZARD_STARTS: &[&str] = &["🇩", "🇪", "🇩", "🇪", "\u{1100}", "\u{1161}", "\u{11a8}", "\u{1161}", "👩\u{200d}", "😀", "a"];

/// clean text (single spaces) whose words mix pool clusters with segmentation hazards; words
/// start with a unit that does not fuse with the space before it, so most texts have no mixed
/// cluster but change their segmentation when a space disappears or appears
pub fn hazard_clean_text(max_words: usize, max_word_len: usize) -> BoxedStrategy<String> {
    proptest::collection::vec(
        (
            prop_oneof![1 => stable_cluster(), 6 => select(HAZARD_STARTS).prop_map(str::to_string)],
            proptest::collection::vec(
                prop_oneof![1 => stable_cluster(), 6 => select(HAZARD_STARTS).prop_map(str::to_string), 1 => select(HAZARD_FRAGS).prop_map(str::to_string)],
                0..max_word_len,
            ),
        )
            .prop_map(|(first, rest)| format!("{first}{}", rest.concat())),
        0..=max_words,
    )
    .prop_map(|w| w.join(" "))
    .boxed()
}

/// texts whose byte length sits at or next to a power of two (256 ... 65536), the sizes at which
/// chunked or blocked implementations cut: `unit` repeated cluster by cluster up to the target,
/// padded with 'a', followed by `tail`; or two letters around a whitespace run of that size
pub fn sized_text(unit: BoxedStrategy<String>, graphemes: bool) -> BoxedStrategy<String> {
    (
        unit,
        select(vec![256usize, 256, 1024, 1024, 4096, 4096, 4096, 4096, 8192, 8192, 8192, 65536]),
        -3i64..=3,
        prop_oneof![select(WS_FRAGS).prop_map(str::to_string), Just(String::new()), Just("x".to_string()), Just(" y".to_string())],
        0u8..3,
    )
        .prop_map(move |(unit, l, d, tail, shape)| {
            let target = (l as i64 + d) as usize;
            if shape == 0 {
                // a long whitespace run between two words
                let w = if unit.chars().all(char::is_whitespace) && !unit.is_empty() { unit.clone() } else { " ".to_string() };
                let mut s = String::from("a");
                while s.len() < target {
                    s.push_str(&w);
                }
                s.push('b');
                return s;
            }
            let cl: Vec<&str> = clusters(&unit, graphemes);
            let mut s = String::new();
            if !cl.is_empty() {
                let mut i = 0;
                while s.len() + cl[i % cl.len()].len() <= target && i < 200_000 {
                    s.push_str(cl[i % cl.len()]);
                    i += 1;
                }
            }
            while s.len() < target {
                s.push('a');
            }
            s.push_str(&tail);
            s
        })
        .boxed()
}
