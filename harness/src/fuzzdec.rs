//! Byte string -> structured case decoders for the libFuzzer targets (hand-written data
//! provider layer on `arbitrary::Unstructured`), so that coverage-guided mutation reaches the
//! logic instead of dying in input validation. Shared by the fuzz targets (harness/fuzz) and by
//! `tuv decode-fuzz`, which turns a crash artifact back into a replayable case.
use crate::props::common::{Table, ALPHABETS};
use crate::gen;
use crate::props::{c03, c06, c10, c11, c12, c16, c18};
use arbitrary::Unstructured;

fn pick<'a, T: Copy>(u: &mut Unstructured, v: &'a [T]) -> Option<T> {
    if v.is_empty() {
        return None;
    }
    let i = u.int_in_range(0..=v.len() - 1).ok()?;
    Some(v[i])
}

pub fn c12(data: &[u8]) -> Option<c12::Case> {
    let mut u = Unstructured::new(data);
    let flags: u8 = u.arbitrary().ok()?;
    let graphemes = flags & 1 != 0;
    let alpha: &[&str] = if graphemes { c12::ALPHA_G } else { c12::ALPHA_CP };
    let mut strs = vec![];
    for max in [16usize, 16, 8] {
        let n = u.int_in_range(0..=max).ok()?;
        let mut s = String::new();
        for _ in 0..n {
            // mostly alphabet tokens, sometimes a raw character
            let b: u8 = u.arbitrary().ok()?;
            if b < 240 {
                s.push_str(alpha[b as usize % alpha.len()]);
            } else {
                let c: char = u.arbitrary().ok()?;
                s.push(c);
            }
        }
        strs.push(s);
    }
    let c = strs.pop()?;
    let b = strs.pop()?;
    let a = strs.pop()?;
    Some(c12::Case {
        a,
        b,
        c,
        graphemes,
        swap: flags & 2 != 0,
        ws_only: flags & 4 != 0,
    })
}

pub fn c03(data: &[u8]) -> Option<c03::Case> {
    let mut u = Unstructured::new(data);
    let letters: Vec<String> = pick(&mut u, ALPHABETS)?.iter().map(|s| s.to_string()).collect();
    let mut base: Vec<Vec<u8>> = vec![];
    for l in &letters {
        for b in l.as_bytes() {
            if !base.contains(&vec![*b]) {
                base.push(vec![*b]);
            }
        }
    }
    base.push(vec![b' ']);
    let mut toks = base.clone();
    let mut entries: Vec<Vec<u8>> = vec![];
    let n = u.int_in_range(0..=32usize).ok()?;
    for _ in 0..n {
        let l = u.int_in_range(0..=toks.len() - 1).ok()?;
        let r = u.int_in_range(0..=toks.len() - 1).ok()?;
        let e = [toks[l].as_slice(), toks[r].as_slice()].concat();
        if e.len() > 12 || toks.contains(&e) || e[1..].contains(&b' ') {
            continue;
        }
        toks.push(e.clone());
        entries.push(e);
    }
    let table = Table { entries };
    // text: words made of pieces, separated by whitespace
    let mut pieces: Vec<String> = letters.clone();
    for e in &table.entries {
        if let Ok(s) = std::str::from_utf8(e) {
            let s = s.trim_start();
            if !s.is_empty() {
                pieces.push(s.to_string());
            }
        }
    }
    let seps = [" ", " ", "  ", "\t", "", "\n ", "\u{3000}"];
    let nw = u.int_in_range(0..=6usize).ok()?;
    let mut text = String::new();
    for _ in 0..nw {
        let np = u.int_in_range(1..=6usize).ok()?;
        for _ in 0..np {
            text.push_str(&pieces[u.int_in_range(0..=pieces.len() - 1).ok()?]);
        }
        text.push_str(pick(&mut u, &seps)?);
    }
    let mv: u8 = u.arbitrary().ok()?;
    let max_vocab = if mv < 160 { None } else { Some(256 + (mv as usize - 160)) };
    Some(c03::Case {
        table,
        text,
        max_vocab,
        graphemes: mv & 1 == 1,
        trained: None,
    })
}

pub fn c16(data: &[u8]) -> Option<c16::Case> {
    let mut u = Unstructured::new(data);
    let max = u.int_in_range(0..=24usize).ok()?;
    let ctx = u.int_in_range(0..=8usize).ok()?;
    let flags: u8 = u.arbitrary().ok()?;
    let n = u.int_in_range(0..=40usize).ok()?;
    let mut s = String::new();
    for _ in 0..n {
        s.push_str(pick(&mut u, c16::UNITS)?);
    }
    Some(c16::Case {
        s,
        max,
        ctx,
        kind: (flags >> 1) % 3,
        graphemes: flags & 1 != 0,
    })
}

fn fuzz_text(u: &mut Unstructured, max: usize, stable_only: bool) -> Option<String> {
    let n = u.int_in_range(0..=max).ok()?;
    let mut s = String::new();
    for _ in 0..n {
        let k: u8 = u.arbitrary().ok()?;
        let pool: &[&str] = if stable_only {
            match k % 4 {
                0 | 1 => gen::CLOSED_POOL,
                _ => gen::WS_FRAGS,
            }
        } else {
            match k % 8 {
                0 | 1 => gen::ASCII_FRAGS,
                2 => gen::MULTI_FRAGS,
                3 | 4 => gen::WS_FRAGS,
                5 => gen::COMBINING_FRAGS,
                6 => gen::HAZARD_FRAGS,
                _ => gen::NFKC_FRAGS,
            }
        };
        if k >= 250 && !stable_only {
            let c: char = u.arbitrary().ok()?;
            s.push(c);
        } else {
            s.push_str(pick(u, pool)?);
        }
    }
    Some(s)
}

pub fn c11(data: &[u8]) -> Option<c11::Case> {
    let mut u = Unstructured::new(data);
    let flags: u8 = u.arbitrary().ok()?;
    let graphemes = flags & 1 != 0;
    // in grapheme mode mostly segmentation-stable texts (the asserting domain)
    let s = fuzz_text(&mut u, 32, graphemes && flags & 6 != 0)?;
    Some(c11::Case { s, graphemes })
}

pub fn c10(data: &[u8]) -> Option<c10::Case> {
    let mut u = Unstructured::new(data);
    let flags: u8 = u.arbitrary().ok()?;
    let graphemes = flags & 1 != 0;
    let sub = match (flags >> 1) % 3 {
        0 => {
            let n = u.int_in_range(0..=16usize).ok()?;
            let mut chars = vec![];
            let mut from = vec![];
            let mut to = vec![];
            for _ in 0..n {
                let c = if graphemes {
                    pick(&mut u, gen::CLOSED_POOL)?.to_string()
                } else {
                    let k: u8 = u.arbitrary().ok()?;
                    let f = match k % 4 {
                        0 | 1 => pick(&mut u, gen::ASCII_FRAGS)?,
                        2 => pick(&mut u, gen::MULTI_FRAGS)?,
                        _ => pick(&mut u, gen::HAZARD_FRAGS)?,
                    };
                    let ch = f.chars().next()?;
                    if ch.is_whitespace() {
                        return None;
                    }
                    ch.to_string()
                };
                chars.push(c);
                let b: u8 = u.arbitrary().ok()?;
                from.push(b & 1 != 0);
                to.push(b & 2 != 0);
            }
            c10::Sub::Inverse { chars, from, to }
        }
        1 => {
            let s = fuzz_text(&mut u, 24, false)?;
            let n = gen::clusters(&s, graphemes).len();
            let delta: i8 = match u.int_in_range(0..=9u8).ok()? {
                0 => 1,
                1 => -1,
                _ => 0,
            };
            let want = (n as isize + delta as isize).max(0) as usize;
            let mut ops = vec![];
            for _ in 0..want {
                ops.push(u.int_in_range(0..=2u8).unwrap_or(0));
            }
            c10::Sub::Repair { s, ops, delta }
        }
        _ => c10::Sub::Total { a: fuzz_text(&mut u, 12, false)?, b: fuzz_text(&mut u, 12, false)? },
    };
    Some(c10::Case { sub, graphemes })
}

pub fn c18(data: &[u8]) -> Option<c18::Case> {
    let mut u = Unstructured::new(data);
    let flags: u8 = u.arbitrary().ok()?;
    let mut seqs = vec![];
    for _ in 0..2 {
        let n = u.int_in_range(0..=12usize).ok()?;
        let mut w = vec![];
        for _ in 0..n {
            w.push(pick(&mut u, c18::WORDS)?.to_string());
        }
        seqs.push(w);
    }
    let b = seqs.pop()?;
    let a = seqs.pop()?;
    let sep = |u: &mut Unstructured| -> Option<Vec<String>> {
        let n = u.int_in_range(1..=3usize).ok()?;
        (0..n).map(|_| pick(u, c18::SEPS).map(str::to_string)).collect()
    };
    Some(c18::Case { a, b, sep_a: sep(&mut u)?, sep_b: sep(&mut u)?, ignore_case: flags & 1 != 0 })
}

pub fn c06(data: &[u8]) -> Option<c06::Case> {
    let mut u = Unstructured::new(data);
    let flags: u8 = u.arbitrary().ok()?;
    let limit = u.int_in_range(0..=20usize).ok()?;
    let prefetch = u.int_in_range(0..=5usize).ok()?;
    let seed: u8 = u.arbitrary().ok()?;
    let n = u.int_in_range(0..=48usize).ok()?;
    let mut sizes = vec![];
    for _ in 0..n {
        let b: u8 = u.arbitrary().ok()?;
        sizes.push(match b % 8 {
            0 => 0,
            1 | 2 => 1,
            3 => (b / 8) as usize % 9,
            4 => limit.max(1),
            5 => limit.max(1) + 1,
            6 => limit.max(1).saturating_sub(1),
            _ => 3 * limit.max(1),
        });
    }
    Some(c06::Case {
        sizes,
        sort: flags & 1 != 0,
        shuffle: flags & 2 != 0,
        prefetch,
        limit,
        padded: flags & 4 != 0,
        seed: Some((seed % 8) as u64),
    })
}
