//! Byte string -> structured case decoders for the libFuzzer targets (hand-written data
//! provider layer on `arbitrary::Unstructured`), so that coverage-guided mutation reaches the
//! logic instead of dying in input validation. Shared by the fuzz targets (harness/fuzz) and by
//! `tuv decode-fuzz`, which turns a crash artifact back into a replayable case.
use crate::props::common::{Table, ALPHABETS};
use crate::props::{c03, c12, c16};
use arbitrary::Unstructured;

fn pick<'a, T: Copy>(u: &mut Unstructured, v: &'a [T]) -> Option<T> {
    if v.is_empty() {
        return None;
    }
    let i = u.int_in_range(0..=v.len() - 1).ok()?;
    Some(v[i])
}

pub fn c12(data: &[u8]) -> Option<c12::Case> {
    let mut u = Unstructured::new(data);
    let flags: u8 = u.arbitrary().ok()?;
    let graphemes = flags & 1 != 0;
    let alpha: &[&str] = if graphemes { c12::ALPHA_G } else { c12::ALPHA_CP };
    let mut strs = vec![];
    for max in [16usize, 16, 8] {
        let n = u.int_in_range(0..=max).ok()?;
        let mut s = String::new();
        for _ in 0..n {
            // mostly alphabet tokens, sometimes a raw character
            let b: u8 = u.arbitrary().ok()?;
            if b < 240 {
                s.push_str(alpha[b as usize % alpha.len()]);
            } else {
                let c: char = u.arbitrary().ok()?;
                s.push(c);
            }
        }
        strs.push(s);
    }
    let c = strs.pop()?;
    let b = strs.pop()?;
    let a = strs.pop()?;
    Some(c12::Case {
        a,
        b,
        c,
        graphemes,
        swap: flags & 2 != 0,
        ws_only: flags & 4 != 0,
    })
}

pub fn c03(data: &[u8]) -> Option<c03::Case> {
    let mut u = Unstructured::new(data);
    let letters: Vec<String> = pick(&mut u, ALPHABETS)?.iter().map(|s| s.to_string()).collect();
    let mut base: Vec<Vec<u8>> = vec![];
    for l in &letters {
        for b in l.as_bytes() {
            if !base.contains(&vec![*b]) {
                base.push(vec![*b]);
            }
        }
    }
    base.push(vec![b' ']);
    let mut toks = base.clone();
    let mut entries: Vec<Vec<u8>> = vec![];
    let n = u.int_in_range(0..=32usize).ok()?;
    for _ in 0..n {
        let l = u.int_in_range(0..=toks.len() - 1).ok()?;
        let r = u.int_in_range(0..=toks.len() - 1).ok()?;
        let e = [toks[l].as_slice(), toks[r].as_slice()].concat();
        if e.len() > 12 || toks.contains(&e) || e[1..].contains(&b' ') {
            continue;
        }
        toks.push(e.clone());
        entries.push(e);
    }
    let table = Table { entries };
    // text: words made of pieces, separated by whitespace
    let mut pieces: Vec<String> = letters.clone();
    for e in &table.entries {
        if let Ok(s) = std::str::from_utf8(e) {
            let s = s.trim_start();
            if !s.is_empty() {
                pieces.push(s.to_string());
            }
        }
    }
    let seps = [" ", " ", "  ", "\t", "", "\n ", "\u{3000}"];
    let nw = u.int_in_range(0..=6usize).ok()?;
    let mut text = String::new();
    for _ in 0..nw {
        let np = u.int_in_range(1..=6usize).ok()?;
        for _ in 0..np {
            text.push_str(&pieces[u.int_in_range(0..=pieces.len() - 1).ok()?]);
        }
        text.push_str(pick(&mut u, &seps)?);
    }
    let mv: u8 = u.arbitrary().ok()?;
    let max_vocab = if mv < 160 { None } else { Some(256 + (mv as usize - 160)) };
    Some(c03::Case {
        table,
        text,
        max_vocab,
        graphemes: mv & 1 == 1,
        trained: None,
    })
}

pub fn c16(data: &[u8]) -> Option<c16::Case> {
    let mut u = Unstructured::new(data);
    let max = u.int_in_range(0..=24usize).ok()?;
    let ctx = u.int_in_range(0..=8usize).ok()?;
    let flags: u8 = u.arbitrary().ok()?;
    let n = u.int_in_range(0..=40usize).ok()?;
    let mut s = String::new();
    for _ in 0..n {
        s.push_str(pick(&mut u, c16::UNITS)?);
    }
    Some(c16::Case {
        s,
        max,
        ctx,
        kind: (flags >> 1) % 3,
        graphemes: flags & 1 != 0,
    })
}
