//! Byte string -> structured case decoders for the libFuzzer targets (hand-written data
//! provider layer on `arbitrary::Unstructured`), so that coverage-guided mutation reaches the
//! logic instead of dying in input validation. Shared by the fuzz targets (harness/fuzz) and by
//! `tuv decode-fuzz`, which turns a crash artifact back into a replayable case.
use crate::props::common::{special_lookalikes, SpecialCfg, Table, ALPHABETS, EXTRA_SPECIALS};
use crate::gen;
use crate::props::c04::Kind;
use crate::props::{c01, c02, c03, c06, c10, c11, c12, c13, c14, c15, c16, c17, c18};
use text_utils::tokenization::SPECIAL_TOKENS;
use arbitrary::Unstructured;

fn pick<'a, T: Copy>(u: &mut Unstructured, v: &'a [T]) -> Option<T> {
    if v.is_empty() {
        return None;
    }
    let i = u.int_in_range(0..=v.len() - 1).ok()?;
    Some(v[i])
}

pub fn c12(data: &[u8]) -> Option<c12::Case> {
    let mut u = Unstructured::new(data);
    let flags: u8 = u.arbitrary().ok()?;
    let graphemes = flags & 1 != 0;
    let alpha: &[&str] = if graphemes { c12::ALPHA_G } else { c12::ALPHA_CP };
    let mut strs = vec![];
    for max in [16usize, 16, 8] {
        let n = u.int_in_range(0..=max).ok()?;
        let mut s = String::new();
        for _ in 0..n {
            // mostly alphabet tokens, sometimes a raw character
            let b: u8 = u.arbitrary().ok()?;
            if b < 240 {
                s.push_str(alpha[b as usize % alpha.len()]);
            } else {
                let c: char = u.arbitrary().ok()?;
                s.push(c);
            }
        }
        strs.push(s);
    }
    let c = strs.pop()?;
    let b = strs.pop()?;
    let a = strs.pop()?;
    Some(c12::Case {
        a,
        b,
        c,
        graphemes,
        swap: flags & 2 != 0,
        ws_only: flags & 4 != 0,
        rep_a: 0,
        rep_b: 0,
    })
}

/// well-formed merge table over one of the alphabets + a text of words made of table pieces
fn fuzz_table(u: &mut Unstructured, max_merges: usize) -> Option<(Vec<String>, Table)> {
    let letters: Vec<String> = pick(u, ALPHABETS)?.iter().map(|s| s.to_string()).collect();
    let mut base: Vec<Vec<u8>> = vec![];
    for l in &letters {
        for b in l.as_bytes() {
            if !base.contains(&vec![*b]) {
                base.push(vec![*b]);
            }
        }
    }
    base.push(vec![b' ']);
    let mut toks = base.clone();
    let mut entries: Vec<Vec<u8>> = vec![];
    let n = u.int_in_range(0..=max_merges).ok()?;
    for _ in 0..n {
        let l = u.int_in_range(0..=toks.len() - 1).ok()?;
        let r = u.int_in_range(0..=toks.len() - 1).ok()?;
        let e = [toks[l].as_slice(), toks[r].as_slice()].concat();
        if e.len() > 12 || toks.contains(&e) || e[1..].contains(&b' ') {
            continue;
        }
        toks.push(e.clone());
        entries.push(e);
    }
    Some((letters, Table { entries }))
}

fn fuzz_table_text(u: &mut Unstructured, letters: &[String], table: &Table, max_words: usize) -> Option<String> {
    let mut pieces: Vec<String> = letters.to_vec();
    for e in &table.entries {
        if let Ok(s) = std::str::from_utf8(e) {
            let s = s.trim_start();
            if !s.is_empty() {
                pieces.push(s.to_string());
            }
        }
    }
    let seps = [" ", " ", "  ", "\t", "", "\n ", "\u{3000}"];
    let nw = u.int_in_range(0..=max_words).ok()?;
    let mut text = String::new();
    for _ in 0..nw {
        let np = u.int_in_range(1..=6usize).ok()?;
        for _ in 0..np {
            text.push_str(&pieces[u.int_in_range(0..=pieces.len() - 1).ok()?]);
        }
        text.push_str(pick(u, &seps)?);
    }
    Some(text)
}

fn fuzz_max_vocab(u: &mut Unstructured) -> Option<(Option<usize>, bool)> {
    let mv: u8 = u.arbitrary().ok()?;
    let max_vocab = if mv < 160 { None } else { Some(256 + (mv as usize - 160)) };
    Some((max_vocab, mv & 1 == 1))
}

pub fn c03(data: &[u8]) -> Option<c03::Case> {
    let mut u = Unstructured::new(data);
    let (letters, table) = fuzz_table(&mut u, 32)?;
    let text = fuzz_table_text(&mut u, &letters, &table, 6)?;
    let (max_vocab, graphemes) = fuzz_max_vocab(&mut u)?;
    Some(c03::Case {
        table,
        text,
        max_vocab,
        graphemes,
        trained: None,
        long_word: 0,
    })
}

pub fn c16(data: &[u8]) -> Option<c16::Case> {
    let mut u = Unstructured::new(data);
    let max = u.int_in_range(0..=24usize).ok()?;
    let ctx = u.int_in_range(0..=8usize).ok()?;
    let flags: u8 = u.arbitrary().ok()?;
    let n = u.int_in_range(0..=40usize).ok()?;
    let mut s = String::new();
    for _ in 0..n {
        s.push_str(pick(&mut u, c16::UNITS)?);
    }
    Some(c16::Case {
        s,
        max,
        ctx,
        kind: (flags >> 1) % 3,
        graphemes: flags & 1 != 0,
    })
}

fn fuzz_text(u: &mut Unstructured, max: usize, stable_only: bool) -> Option<String> {
    let n = u.int_in_range(0..=max).ok()?;
    let mut s = String::new();
    for _ in 0..n {
        let k: u8 = u.arbitrary().ok()?;
        let pool: &[&str] = if stable_only {
            match k % 4 {
                0 | 1 => gen::CLOSED_POOL,
                _ => gen::WS_FRAGS,
            }
        } else {
            match k % 8 {
                0 | 1 => gen::ASCII_FRAGS,
                2 => gen::MULTI_FRAGS,
                3 | 4 => gen::WS_FRAGS,
                5 => gen::COMBINING_FRAGS,
                6 => gen::HAZARD_FRAGS,
                _ => gen::NFKC_FRAGS,
            }
        };
        if k >= 250 && !stable_only {
            let c: char = u.arbitrary().ok()?;
            s.push(c);
        } else {
            s.push_str(pick(u, pool)?);
        }
    }
    Some(s)
}

pub fn c11(data: &[u8]) -> Option<c11::Case> {
    let mut u = Unstructured::new(data);
    let flags: u8 = u.arbitrary().ok()?;
    let graphemes = flags & 1 != 0;
    // in grapheme mode mostly segmentation-stable texts (the asserting domain)
    let s = if graphemes && flags & 6 == 6 {
        // hazards next to pool clusters and whitespace (unstable, mostly without mixed clusters)
        let n = u.int_in_range(0..=24usize).ok()?;
        let mut s = String::new();
        for _ in 0..n {
            let k: u8 = u.arbitrary().ok()?;
            s.push_str(match k % 3 {
                0 => pick(&mut u, gen::CLOSED_POOL)?,
                1 => pick(&mut u, gen::HAZARD_FRAGS)?,
                _ => pick(&mut u, gen::WS_FRAGS)?,
            });
        }
        s
    } else {
        fuzz_text(&mut u, 32, graphemes && flags & 6 != 0)?
    };
    Some(c11::Case { s, graphemes })
}

pub fn c10(data: &[u8]) -> Option<c10::Case> {
    let mut u = Unstructured::new(data);
    let flags: u8 = u.arbitrary().ok()?;
    let graphemes = flags & 1 != 0;
    let sub = match (flags >> 1) % 3 {
        0 => {
            let n = u.int_in_range(0..=16usize).ok()?;
            let mut chars = vec![];
            let mut from = vec![];
            let mut to = vec![];
            for _ in 0..n {
                let c = if graphemes {
                    pick(&mut u, gen::CLOSED_POOL)?.to_string()
                } else {
                    let k: u8 = u.arbitrary().ok()?;
                    let f = match k % 4 {
                        0 | 1 => pick(&mut u, gen::ASCII_FRAGS)?,
                        2 => pick(&mut u, gen::MULTI_FRAGS)?,
                        _ => pick(&mut u, gen::HAZARD_FRAGS)?,
                    };
                    let ch = f.chars().next()?;
                    if ch.is_whitespace() {
                        return None;
                    }
                    ch.to_string()
                };
                chars.push(c);
                let b: u8 = u.arbitrary().ok()?;
                from.push(b & 1 != 0);
                to.push(b & 2 != 0);
            }
            c10::Sub::Inverse { chars, from, to }
        }
        1 => {
            let s = fuzz_text(&mut u, 24, false)?;
            let n = gen::clusters(&s, graphemes).len();
            let delta: i8 = match u.int_in_range(0..=9u8).ok()? {
                0 => 1,
                1 => -1,
                _ => 0,
            };
            let want = (n as isize + delta as isize).max(0) as usize;
            let mut ops = vec![];
            for _ in 0..want {
                ops.push(u.int_in_range(0..=2u8).unwrap_or(0));
            }
            c10::Sub::Repair { s, ops, delta }
        }
        _ => c10::Sub::Total { a: fuzz_text(&mut u, 12, false)?, b: fuzz_text(&mut u, 12, false)? },
    };
    Some(c10::Case { sub, graphemes })
}

pub fn c18(data: &[u8]) -> Option<c18::Case> {
    let mut u = Unstructured::new(data);
    let flags: u8 = u.arbitrary().ok()?;
    let mut seqs = vec![];
    for _ in 0..2 {
        let n = u.int_in_range(0..=12usize).ok()?;
        let mut w = vec![];
        for _ in 0..n {
            w.push(pick(&mut u, c18::WORDS)?.to_string());
        }
        seqs.push(w);
    }
    let b = seqs.pop()?;
    let a = seqs.pop()?;
    let sep = |u: &mut Unstructured| -> Option<Vec<String>> {
        let n = u.int_in_range(1..=3usize).ok()?;
        (0..n)
            .map(|_| {
                let k: u8 = u.arbitrary().ok()?;
                if k < 20 { pick(u, c18::SEPS_WIDE) } else { pick(u, c18::SEPS) }.map(str::to_string)
            })
            .collect()
    };
    Some(c18::Case { a, b, sep_a: sep(&mut u)?, sep_b: sep(&mut u)?, ignore_case: flags & 1 != 0, many: 0 })
}

pub fn c06(data: &[u8]) -> Option<c06::Case> {
    let mut u = Unstructured::new(data);
    let flags: u8 = u.arbitrary().ok()?;
    let limit = u.int_in_range(0..=20usize).ok()?;
    let prefetch = u.int_in_range(0..=5usize).ok()?;
    let seed: u8 = u.arbitrary().ok()?;
    let n = u.int_in_range(0..=48usize).ok()?;
    let mut sizes = vec![];
    for _ in 0..n {
        let b: u8 = u.arbitrary().ok()?;
        sizes.push(match b % 8 {
            0 => 0,
            1 | 2 => 1,
            3 => (b / 8) as usize % 9,
            4 => limit.max(1),
            5 => limit.max(1) + 1,
            6 => limit.max(1).saturating_sub(1),
            _ => 3 * limit.max(1),
        });
    }
    Some(c06::Case {
        sizes,
        sort: flags & 1 != 0,
        shuffle: flags & 2 != 0,
        prefetch,
        limit,
        padded: flags & 4 != 0,
        seed: Some((seed % 8) as u64),
        repeat: 0,
    })
}

// -----------------------------------------------------------------------------------------
// second batch: tokenizers, metrics, corruption, tensorisation

/// same domain as `common::special_cfg`: defaults + distinct extras (+ duplicates), pad/prefix/
/// suffix picked from the list
fn fuzz_special(u: &mut Unstructured) -> Option<SpecialCfg> {
    let flags: u8 = u.arbitrary().ok()?;
    let defaults: Vec<String> = SPECIAL_TOKENS.iter().map(|s| s.to_string()).collect();
    let mut tokens: Vec<String> = vec![];
    if flags & 1 != 0 {
        tokens.extend(defaults.clone());
    }
    for _ in 0..(flags >> 1) % 4 {
        let e = pick(u, EXTRA_SPECIALS)?.to_string();
        if !tokens.contains(&e) {
            tokens.push(e);
        }
    }
    if flags & 1 == 0 {
        tokens.extend(defaults);
    }
    for _ in 0..(flags >> 3) % 3 {
        let t = tokens[u.int_in_range(0..=tokens.len() - 1).ok()?].clone();
        tokens.push(t);
    }
    let one = |u: &mut Unstructured| -> Option<String> { Some(tokens[u.int_in_range(0..=tokens.len() - 1).ok()?].clone()) };
    let pad = one(u)?;
    let np = u.int_in_range(0..=3usize).ok()?;
    let prefix = (0..np).map(|_| one(u)).collect::<Option<Vec<_>>>()?;
    let ns = u.int_in_range(0..=3usize).ok()?;
    let suffix = (0..ns).map(|_| one(u)).collect::<Option<Vec<_>>>()?;
    Some(SpecialCfg { pad, tokens, prefix, suffix })
}

fn fuzz_byte_kind(u: &mut Unstructured) -> Option<Kind> {
    let flags: u8 = u.arbitrary().ok()?;
    let pad_to = match flags >> 3 {
        0..=11 => None,
        k => Some(1usize << ((k - 12) % 10)),
    };
    Some(Kind::Byte { graphemes: flags & 1 != 0, code_point_groups: flags & 2 != 0, pad_to, sum: flags & 4 != 0 })
}

/// fragments without hazards/random characters mixed with an extra pool (as `gen::text_with`)
fn fuzz_text_with(u: &mut Unstructured, extra: &[String], max: usize) -> Option<String> {
    let n = u.int_in_range(0..=max).ok()?;
    let mut s = String::new();
    for _ in 0..n {
        let k: u8 = u.arbitrary().ok()?;
        match k % 10 {
            0 | 1 => s.push_str(pick(u, gen::ASCII_FRAGS)?),
            2 => s.push_str(pick(u, gen::MULTI_FRAGS)?),
            3 => s.push_str(pick(u, gen::WS_FRAGS)?),
            4 => s.push_str(pick(u, gen::COMBINING_FRAGS)?),
            5 => s.push_str(pick(u, gen::NFKC_FRAGS)?),
            _ if !extra.is_empty() => s.push_str(&extra[u.int_in_range(0..=extra.len() - 1).ok()?]),
            _ => s.push('a'),
        }
    }
    Some(s)
}

pub fn c01(data: &[u8]) -> Option<c01::Case> {
    let mut u = Unstructured::new(data);
    let special = fuzz_special(&mut u)?;
    let flags: u8 = u.arbitrary().ok()?;
    let kind = if flags & 1 != 0 {
        fuzz_byte_kind(&mut u)?
    } else {
        let mut unks = special.unique_tokens();
        unks.push("<unknown>".to_string());
        unks.push("[?]".to_string());
        Kind::Char { graphemes: flags & 2 != 0, unk: unks[u.int_in_range(0..=unks.len() - 1).ok()?].clone() }
    };
    let look = special_lookalikes(&special);
    let text = if flags & 8 != 0 { fuzz_text(&mut u, 16, false)? } else { fuzz_text_with(&mut u, &look, 16)? };
    Some(c01::Case { kind, special, text, ignore_special: flags & 4 != 0, repeat: 0 })
}

pub fn c02(data: &[u8]) -> Option<c02::Case> {
    let mut u = Unstructured::new(data);
    let (letters, table) = fuzz_table(&mut u, 48)?;
    let special = fuzz_special(&mut u)?;
    let flags: u8 = u.arbitrary().ok()?;
    let mut text = fuzz_table_text(&mut u, &letters, &table, 6)?;
    if flags & 1 != 0 {
        text.push_str(&fuzz_text(&mut u, 8, false)?);
    }
    if flags & 2 != 0 {
        text.push_str(pick(&mut u, gen::WS_FRAGS)?);
    }
    let (max_vocab, graphemes) = fuzz_max_vocab(&mut u)?;
    Some(c02::Case { table, text, max_vocab, graphemes, special, trained: None, long_word: 0 })
}

pub fn c14(data: &[u8]) -> Option<c14::Case> {
    let mut u = Unstructured::new(data);
    let flags: u8 = u.arbitrary().ok()?;
    let g = flags & 1 != 0;
    let special = fuzz_special(&mut u)?;
    let kind = fuzz_byte_kind(&mut u)?;
    let prob = |u: &mut Unstructured| -> Option<f64> {
        let b: u8 = u.arbitrary().ok()?;
        Some(match b {
            0..=39 => 0.0,
            40..=79 => 0.05,
            80..=119 => 0.3,
            120..=159 => 0.7,
            160..=199 => 1.0,
            _ => (b - 200) as f64 / 55.0,
        })
    };
    let mut p_ins = prob(&mut u)?;
    let p_del = prob(&mut u)?;
    if p_ins <= 0.0 && p_del <= 0.0 {
        // (0,0) is rejected by a panic at construction, which libFuzzer's abort-on-panic hook
        // would turn into a crash; the proptest tier covers the rejection
        p_ins = 0.3;
    }
    let seed: u64 = u.arbitrary().ok()?;
    let nw = u.int_in_range(0..=8usize).ok()?;
    let mut words = vec![];
    for _ in 0..nw {
        let nc = u.int_in_range(1..=6usize).ok()?;
        let mut w = String::new();
        for _ in 0..nc {
            if g {
                w.push_str(pick(&mut u, gen::CLOSED_POOL)?);
            } else {
                let k: u8 = u.arbitrary().ok()?;
                let ch = match k % 8 {
                    0..=3 => pick(&mut u, gen::ASCII_FRAGS)?.chars().next()?,
                    4 | 5 => pick(&mut u, gen::MULTI_FRAGS)?.chars().next()?,
                    6 => pick(&mut u, gen::HAZARD_FRAGS)?.chars().next()?,
                    _ => pick(&mut u, gen::NFKC_FRAGS)?.chars().next()?,
                };
                if ch.is_whitespace() {
                    return None;
                }
                w.push(ch);
            }
        }
        words.push(w);
    }
    Some(c14::Case { text: words.join(" "), p_ins, p_del, seed, graphemes: g, corrupt_target: flags & 2 != 0, kind, special })
}

pub fn c17(data: &[u8]) -> Option<c17::Case> {
    let mut u = Unstructured::new(data);
    let special = fuzz_special(&mut u)?;
    let kind = fuzz_byte_kind(&mut u)?;
    let flags: u8 = u.arbitrary().ok()?;
    let look = special_lookalikes(&special);
    let n = u.int_in_range(1..=6usize).ok()?;
    let mut items = vec![];
    for _ in 0..n {
        let t = fuzz_text_with(&mut u, &look, 6)?;
        let b: u8 = u.arbitrary().ok()?;
        items.push((t, b));
    }
    let separator = match (flags >> 4) % 5 {
        0 => None,
        1 => Some(" => "),
        2 => Some("\n"),
        3 => Some("<sep>"),
        _ => Some(""),
    }
    .map(str::to_string);
    Some(c17::Case { items, kind, special, ignore_special: flags & 1 != 0, task: (flags >> 1) % 4, mask_input: flags & 8 != 0, separator, target_reversed: flags & 128 != 0, big_cluster: 0, mixed_agg: flags & 64 != 0 })
}

pub fn c15(data: &[u8]) -> Option<c15::Case> {
    let mut u = Unstructured::new(data);
    let flags: u8 = u.arbitrary().ok()?;
    let g = flags & 1 != 0;
    let al = c15::alpha(g, flags & 2 != 0);
    let cat = |u: &mut Unstructured, lo: usize, hi: usize| -> Option<String> {
        let n = u.int_in_range(lo..=hi).ok()?;
        let mut s = String::new();
        for _ in 0..n {
            s.push_str(pick(u, al)?);
        }
        Some(s)
    };
    let word = cat(&mut u, 0, 10)?;
    let kinds = u.int_in_range(1..=15u8).ok()?;
    let edits = |u: &mut Unstructured| -> Option<Vec<(String, u8)>> {
        let n = u.int_in_range(1..=3usize).ok()?;
        (0..n).map(|_| Some((cat(u, 0, 3)?, u.int_in_range(1..=4u8).ok()?))).collect()
    };
    let ctx = |u: &mut Unstructured, marker: &str| -> Option<String> {
        let i = u.int_in_range(0..=al.len() + 1).ok()?;
        Some(if i >= al.len() { marker.to_string() } else { al[i].to_string() })
    };
    let ni = u.int_in_range(0..=10usize).ok()?;
    let mut insert = vec![];
    for _ in 0..ni {
        insert.push(((ctx(&mut u, "<bow>")?, ctx(&mut u, "<eow>")?), edits(&mut u)?));
    }
    let nr = u.int_in_range(0..=14usize).ok()?;
    let mut replace = vec![];
    for _ in 0..nr {
        replace.push(((ctx(&mut u, "<bow>")?, pick(&mut u, al)?.to_string(), ctx(&mut u, "<eow>")?), edits(&mut u)?));
    }
    let list = |u: &mut Unstructured| -> Option<Vec<String>> {
        let n = u.int_in_range(0..=5usize).ok()?;
        if n > 3 {
            return Some(vec![]);
        }
        (0..n).map(|_| pick(u, al).map(str::to_string)).collect()
    };
    let deletable = list(&mut u)?;
    let swappable = list(&mut u)?;
    let n = gen::clusters(&word, g).len();
    let ne = u.int_in_range(0..=4usize).ok()?;
    let mut exclude = vec![];
    for _ in 0..ne {
        let e = u.int_in_range(0..=10usize).ok()?;
        if e < n {
            exclude.push(e);
        }
    }
    exclude.sort();
    exclude.dedup();
    let seed: u64 = u.arbitrary().ok()?;
    let chain = u.int_in_range(1..=6usize).ok()?;
    Some(c15::Case {
        word,
        graphemes: g,
        kinds,
        tables: c15::Tables { insert, replace, mock: flags & 12 == 12 },
        full_delete: flags & 16 != 0,
        deletable,
        swappable,
        exclude,
        seed,
        chain,
        sentence: None,
    })
}

pub fn c13(data: &[u8]) -> Option<c13::Case> {
    let mut u = Unstructured::new(data);
    let flags: u8 = u.arbitrary().ok()?;
    let beta = [0.5f64, 1.0, 2.0][(flags >> 1) as usize % 3];
    let rot = (flags >> 3) as usize % 6;
    let word = |u: &mut Unstructured| -> Option<String> { pick(u, c13::WORDS).map(str::to_string) };
    let sub = match u.int_in_range(0..=2u8).ok()? {
        0 => {
            let nt = u.int_in_range(0..=4usize).ok()?;
            let mut triples = vec![];
            for _ in 0..nt {
                let nw = u.int_in_range(0..=6usize).ok()?;
                let target: Vec<String> = (0..nw).map(|_| word(&mut u)).collect::<Option<_>>()?;
                let ops = |u: &mut Unstructured| -> Option<Vec<(u8, u16, String)>> {
                    let n = u.int_in_range(0..=3usize).ok()?;
                    (0..n).map(|_| Some((u.arbitrary().ok()?, u.arbitrary().ok()?, word(u)?))).collect()
                };
                let e1 = ops(&mut u)?;
                let e2 = ops(&mut u)?;
                let m: u8 = u.arbitrary().ok()?;
                let input = c13::corrupt(&target, &e1);
                let pred = match m % 8 {
                    0 | 1 => target.clone(),
                    2 => input.clone(),
                    3 => c13::corrupt(&input, &e2),
                    4 => c13::corrupt(&target, &e2),
                    5 => vec![],
                    _ => c13::corrupt(&input, &e2[..e2.len().min(1)]),
                };
                let ns = u.int_in_range(1..=3usize).ok()?;
                let seps: Vec<String> = (0..ns).map(|_| pick(&mut u, &[" ", " ", " ", "  ", "\t", " \n"]).map(str::to_string)).collect::<Option<_>>()?;
                let p = if m & 128 != 0 { " " } else { "" };
                triples.push((format!("{p}{}", c13::join(&input, &seps)), c13::join(&pred, &seps), format!("{}{p}", c13::join(&target, &seps))));
            }
            c13::Sub::Spelling { triples }
        }
        1 => {
            let ns = u.int_in_range(0..=4usize).ok()?;
            let mut seqs = vec![];
            for _ in 0..ns {
                let n = u.int_in_range(0..=8usize).ok()?;
                let mut chars = vec![];
                let (mut a, mut b, mut c) = (vec![], vec![], vec![]);
                for _ in 0..n {
                    chars.push(pick(&mut u, c13::WS_ALPHA)?.to_string());
                    let k: u8 = u.arbitrary().ok()?;
                    a.push(k & 1 != 0);
                    b.push(k & 2 != 0);
                    c.push(k & 4 != 0);
                }
                seqs.push((chars, a, b, c));
            }
            c13::Sub::Whitespace { seqs, mode: u.int_in_range(0..=2u8).ok()? }
        }
        _ => {
            let nt = u.int_in_range(0..=3usize).ok()?;
            let mut triples = vec![];
            for _ in 0..nt {
                triples.push((fuzz_text(&mut u, 5, false)?, fuzz_text(&mut u, 5, false)?, fuzz_text(&mut u, 5, false)?));
            }
            c13::Sub::Wild { triples, mode: u.int_in_range(0..=2u8).ok()? }
        }
    };
    Some(c13::Case { sub, beta, graphemes: flags & 1 != 0, rot })
}
