use tuv::engine::*;
use tuv::props;
use serde_json::json;
use std::collections::{BTreeMap, HashSet};
use std::path::{Path, PathBuf};
use std::process::{Child, Command, Stdio};
use std::time::{Duration, Instant};

fn usage() -> ! {
    eprintln!(
        "usage: tuv check <ID> <quick|thorough>\n       tuv replay <ID> <file>\n       tuv shard <ID> ... (internal)\n       tuv list"
    );
    std::process::exit(EXIT_INTERNAL)
}

fn find(id: &str) -> PropMeta {
    props::registry()
        .into_iter()
        .find(|m| m.id == id)
        .unwrap_or_else(|| {
            eprintln!("unknown property {id}");
            std::process::exit(EXIT_INTERNAL)
        })
}

fn main() {
    let args: Vec<String> = std::env::args().collect();
    if args.len() < 2 {
        usage();
    }
    let code = match args[1].as_str() {
        "list" => {
            for m in props::registry() {
                println!("{}", m.id);
            }
            0
        }
        "check" if args.len() >= 4 => check(&find(&args[2]), &args[3]),
        "replay" if args.len() >= 4 => (find(&args[2]).replay_one)(Path::new(&args[3])),
        "shard" if args.len() >= 3 => shard(&find(&args[2]), &args[3..]),
        "child" if args.len() >= 3 => props::child_entry(&args[2..]),
        _ => usage(),
    };
    std::process::exit(code)
}

fn tier_of(s: &str) -> Tier {
    match s {
        "quick" => Tier::Quick,
        "thorough" => Tier::Thorough,
        _ => usage(),
    }
}

fn shard(m: &PropMeta, rest: &[String]) -> i32 {
    // shard <ID> <tier> <seed> <shard> <nshards> <out> [--replay f1 f2 ...] [--cases n]
    if rest.len() < 5 {
        usage();
    }
    let mut replay_files = vec![];
    let mut replay_only = false;
    let mut cases_override = None;
    let mut i = 5;
    while i < rest.len() {
        match rest[i].as_str() {
            "--replay" => {
                replay_only = true;
                i += 1;
                while i < rest.len() && !rest[i].starts_with("--") {
                    replay_files.push(PathBuf::from(&rest[i]));
                    i += 1;
                }
            }
            "--cases" => {
                cases_override = rest.get(i + 1).and_then(|s| s.parse().ok());
                i += 2;
            }
            _ => usage(),
        }
    }
    (m.run_shard)(ShardArgs {
        tier: tier_of(&rest[0]),
        seed: rest[1].parse().unwrap_or(0),
        shard: rest[2].parse().unwrap_or(0),
        nshards: rest[3].parse().unwrap_or(1),
        out: PathBuf::from(&rest[4]),
        replay_files,
        replay_only,
        cases_override,
    })
}

struct Running {
    child: Child,
    out: PathBuf,
    shard: u32,
    replay: bool,
    started: Instant,
}

fn replay_files_for(id: &str) -> Vec<PathBuf> {
    let mut v = vec![];
    for dir in [verif_root().join("replays"), verif_root().join("replays/found")] {
        if let Ok(rd) = std::fs::read_dir(&dir) {
            for e in rd.flatten() {
                let name = e.file_name().to_string_lossy().to_string();
                if name.starts_with(&format!("{id}-")) && name.ends_with(".json") {
                    v.push(e.path());
                }
            }
        }
    }
    v.sort();
    v
}

fn check(m: &PropMeta, tier_s: &str) -> i32 {
    let tier = tier_of(tier_s);
    let start = Instant::now();
    let seed: u64 = std::env::var("VERIF_SEED")
        .ok()
        .and_then(|s| s.trim().parse::<i64>().ok())
        .map(|v| v as u64)
        .unwrap_or(0);
    let cases_override: Option<u32> = std::env::var("TUV_CASES").ok().and_then(|s| s.parse().ok());
    let exe = std::env::current_exe().expect("current exe");
    let work = verif_root().join("work").join(format!("{}-{}", m.id, std::process::id()));
    let _ = std::fs::remove_dir_all(&work);
    std::fs::create_dir_all(&work).expect("create work dir");
    std::env::set_var("TUV_WORK", &work);
    let budget = (m.budget)(tier);
    let nshards = std::env::var("TUV_SHARDS")
        .ok()
        .and_then(|s| s.parse().ok())
        .unwrap_or(budget.shards)
        .max(1);
    let max_par: usize = std::env::var("TUV_JOBS")
        .ok()
        .and_then(|s| s.parse().ok())
        .unwrap_or(16);

    // job list: replay shard first, then the generated shards
    let mut jobs: Vec<(u32, bool)> = vec![(u32::MAX, true)];
    jobs.extend((0..nshards).map(|s| (s, false)));
    jobs.reverse();
    let mut running: Vec<Running> = vec![];
    let mut finished: Vec<(u32, bool, i32, PathBuf)> = vec![];
    let replays = replay_files_for(m.id);
    while !jobs.is_empty() || !running.is_empty() {
        while running.len() < max_par && !jobs.is_empty() {
            let (s, replay) = jobs.pop().unwrap();
            let out = work.join(if replay {
                "replay.json".to_string()
            } else {
                format!("shard-{s}.json")
            });
            let mut cmd = Command::new(&exe);
            cmd.arg("shard")
                .arg(m.id)
                .arg(tier.name())
                .arg(seed.to_string())
                .arg(if replay { "0".to_string() } else { s.to_string() })
                .arg(nshards.to_string())
                .arg(&out);
            if replay {
                cmd.arg("--replay");
                for f in &replays {
                    cmd.arg(f);
                }
            } else if let Some(c) = cases_override {
                cmd.arg("--cases").arg(c.to_string());
            }
            cmd.env("TUV_WORK", work.join(if replay { "r".to_string() } else { format!("s{s}") }));
            cmd.stdin(Stdio::null());
            let child = cmd.spawn().expect("spawn shard");
            running.push(Running {
                child,
                out,
                shard: s,
                replay,
                started: Instant::now(),
            });
        }
        let mut i = 0;
        let mut progressed = false;
        while i < running.len() {
            match running[i].child.try_wait() {
                Ok(Some(status)) => {
                    let r = running.swap_remove(i);
                    let code = status.code().unwrap_or(-1);
                    finished.push((r.shard, r.replay, code, r.out));
                    progressed = true;
                }
                Ok(None) => {
                    let _ = running[i].started;
                    i += 1;
                }
                Err(e) => internal_error(&format!("wait: {e}")),
            }
        }
        if !progressed {
            std::thread::sleep(Duration::from_millis(20));
        }
    }

    // ---- collect
    let mut total = Stats::default();
    let mut hashes: HashSet<u64> = HashSet::new();
    let mut violations: Vec<Violation> = vec![];
    let mut known_hits: Vec<KnownHit> = vec![];
    let mut inconclusive: Vec<String> = vec![];
    let mut replayed = 0u64;
    let mut gen_labels: BTreeMap<String, u64> = BTreeMap::new();
    let mut gen_evals = 0u64;
    let mut hangs: Vec<(u32, String, serde_json::Value, Vec<String>)> = vec![];
    finished.sort_by_key(|f| (f.1, f.0));
    for (s, replay, code, out) in &finished {
        let tag = if *replay { "replay".to_string() } else { format!("shard {s}") };
        match *code {
            EXIT_OK | EXIT_VIOLATION if out.exists() => {
                let Ok(txt) = std::fs::read(out) else {
                    internal_error(&format!("{tag}: exit {code} but no result file"));
                };
                let res: ShardResult = serde_json::from_slice(&txt)
                    .unwrap_or_else(|e| internal_error(&format!("{tag}: bad result file: {e}")));
                if let Ok(hb) = std::fs::read(out.with_extension("hashes")) {
                    for c in hb.chunks_exact(8) {
                        hashes.insert(u64::from_le_bytes(c.try_into().unwrap()));
                    }
                }
                total.evaluations += res.stats.evaluations;
                total.nontrivial += res.stats.nontrivial;
                for (k, v) in &res.stats.labels {
                    *total.labels.entry(k.clone()).or_insert(0) += v;
                    if !replay {
                        *gen_labels.entry(k.clone()).or_insert(0) += v;
                    }
                }
                if !replay {
                    gen_evals += res.stats.evaluations;
                }
                for (k, v) in &res.stats.discards {
                    *total.discards.entry(k.clone()).or_insert(0) += v;
                }
                for (k, v) in &res.stats.extra {
                    // numeric extras are summed, others kept from the first shard
                    match (total.extra.get(k).and_then(|x| x.as_u64()), v.as_u64()) {
                        (Some(a), Some(b)) => {
                            total.extra.insert(k.clone(), json!(a + b));
                        }
                        (None, _) if !total.extra.contains_key(k) => {
                            total.extra.insert(k.clone(), v.clone());
                        }
                        _ => {}
                    }
                }
                if !replay {
                    if total.first_samples.len() < 3 {
                        total.first_samples.extend(res.stats.first_samples.iter().cloned());
                        total.first_samples.truncate(3);
                    }
                    if total.reservoir.len() < 5 {
                        total.reservoir.extend(res.stats.reservoir.iter().take(2).cloned());
                        total.reservoir.truncate(5);
                    }
                }
                replayed += res.replayed;
                known_hits.extend(res.known_hits.iter().cloned());
                if let Some(v) = res.violation {
                    violations.push(v);
                }
                if let Some(v) = res.vacuous {
                    inconclusive.push(format!("{tag}: {v}"));
                }
            }
            EXIT_HANG => {
                let hang_file = out.with_extension("hang");
                let case_txt = std::fs::read_to_string(&hang_file).unwrap_or_else(|_| "null".into());
                let v: serde_json::Value =
                    serde_json::from_str(&case_txt).unwrap_or(serde_json::Value::Null);
                let case = v.get("case").cloned().unwrap_or(serde_json::Value::Null);
                let panics: Vec<String> = v
                    .get("panics")
                    .and_then(|p| serde_json::from_value(p.clone()).ok())
                    .unwrap_or_default();
                hangs.push((*s, tag.clone(), case, panics));
            }
            1 if !out.exists() && out.with_extension("died").exists() => {
                // the child was ended by process::exit(1) in the middle of a case
                let case_txt = std::fs::read_to_string(out.with_extension("died")).unwrap_or_else(|_| "null".into());
                let case: serde_json::Value = serde_json::from_str(&case_txt).unwrap_or(serde_json::Value::Null);
                hangs.push((*s, tag.clone(), case, vec!["the process was terminated during the case (exit-on-panic hook installed by Pipe::new)".to_string()]));
            }
            c => {
                eprintln!("{tag}: child exited with status {c}");
                let _ = std::fs::remove_dir_all(&work);
                return if c == EXIT_INCONCLUSIVE { EXIT_INCONCLUSIVE } else { EXIT_INTERNAL };
            }
        }
    }

    // ---- hangs: confirm (at most three distinct cases, concurrently), alone in fresh processes
    {
        let mut distinct: Vec<(u32, String, serde_json::Value, Vec<String>)> = vec![];
        for h in hangs {
            if !distinct.iter().any(|d| d.2 == h.2) {
                distinct.push(h);
            }
        }
        let extra = distinct.len().saturating_sub(3);
        distinct.truncate(3);
        let mut procs = vec![];
        for (s, tag, case, panics) in distinct {
            let confirm = work.join(format!("hang-confirm-{s}.json"));
            std::fs::write(&confirm, serde_json::to_vec(&json!({"case": case})).unwrap()).unwrap();
            let c = Command::new(&exe)
                .arg("replay")
                .arg(m.id)
                .arg(&confirm)
                .stdout(Stdio::null())
                .stderr(Stdio::null())
                .spawn()
                .expect("spawn confirm");
            procs.push((s, tag, case, c, None::<i32>, panics));
        }
        let t0 = Instant::now();
        while t0.elapsed() < Duration::from_secs(m.hang_secs + 30) && procs.iter().any(|p| p.4.is_none()) {
            for p in procs.iter_mut() {
                if p.4.is_none() {
                    if let Ok(Some(st)) = p.3.try_wait() {
                        p.4 = Some(st.code().unwrap_or(-1));
                    }
                }
            }
            std::thread::sleep(Duration::from_millis(100));
        }
        for (s, tag, case, mut c, status, panics) in procs {
            if status.is_none() {
                let _ = c.kill();
                let _ = c.wait();
            }
            match status {
                Some(EXIT_OK) => inconclusive.push(format!(
                    "{tag}: a case made no progress for {}s once but finished on its own when re-run",
                    m.hang_secs
                )),
                Some(EXIT_VIOLATION) => violations.push(Violation {
                    case,
                    message: format!("case did not complete in its shard, and fails when re-run alone{}", if panics.is_empty() { String::new() } else { format!(": {}", panics.join("; ")) }),
                    original_case: None,
                    stage: "hang-confirm".into(),
                    seed,
                    shard: s,
                }),
                Some(EXIT_HANG) | None if !panics.is_empty() => violations.push(Violation {
                    case,
                    message: format!("panic in code under test and the case never returned: {}", panics.join("; ")),
                    original_case: None,
                    stage: "hang+panic".into(),
                    seed,
                    shard: s,
                }),
                Some(EXIT_HANG) | None => {
                    if m.claims_termination {
                        violations.push(Violation {
                            case,
                            message: format!(
                                "did not return within {}s (twice, second time alone in a fresh process)",
                                m.hang_secs
                            ),
                            original_case: None,
                            stage: "hang".into(),
                            seed,
                            shard: s,
                        });
                    } else {
                        inconclusive.push(format!(
                            "{tag}: case does not return within {}s (property does not claim termination): {}",
                            m.hang_secs, case
                        ));
                    }
                }
                Some(c) => internal_error(&format!("{tag}: hang confirmation exited {c}")),
            }
        }
        if extra > 0 {
            eprintln!("{extra} further hanging case(s) not confirmed individually");
        }
    }

    // ---- coverage-guided fuzz stage (thorough tier; the oracle is the same check function)
    let mut fuzz_info = serde_json::Value::Null;
    if tier == Tier::Thorough && violations.is_empty() && std::env::var("TUV_NO_FUZZ").is_err() {
        if let Some(target) = m.fuzz_target {
            let runs: u64 = std::env::var("TUV_FUZZ_RUNS").ok().and_then(|s| s.parse().ok()).unwrap_or(m.fuzz_runs);
            let (info, viol, inc) = fuzz_stage(m, target, runs, seed, &work);
            fuzz_info = info;
            if let Some(n) = fuzz_info.get("executions").and_then(|v| v.as_u64()) {
                total.evaluations += n;
            }
            violations.extend(viol);
            inconclusive.extend(inc);
        }
    }

    // ---- vacuity
    if violations.is_empty() && cases_override.is_none() {
        for l in m.essential {
            if gen_labels.get(*l).copied().unwrap_or(0) == 0 {
                inconclusive.push(format!("essential class '{l}' never generated"));
            }
        }
        let disc: u64 = total.discards.values().sum();
        if gen_evals > 0 && disc * 2 > gen_evals {
            inconclusive.push(format!("{disc} of {gen_evals} generated cases discarded"));
        }
    }

    // ---- known findings
    let mut printed = HashSet::new();
    for k in &known_hits {
        if k.still_fails && printed.insert(k.id.clone()) {
            println!("KNOWN-FINDING: property={} {} {}", m.id, k.id, k.what);
        }
    }

    // ---- violations -> replay files
    let found_dir = verif_root().join("replays/found");
    let mut seen_cases = HashSet::new();
    for v in &violations {
        let cs = serde_json::to_string(&v.case).unwrap_or_default();
        if !seen_cases.insert(cs.clone()) {
            continue;
        }
        let mut h = std::collections::hash_map::DefaultHasher::new();
        std::hash::Hash::hash(&cs, &mut h);
        let name = format!("{}-{:016x}.json", m.id, std::hash::Hasher::finish(&h));
        let _ = std::fs::create_dir_all(&found_dir);
        let path = found_dir.join(name);
        let body = json!({
            "property": m.id, "tier": tier.name(), "seed": v.seed, "shard": v.shard,
            "stage": v.stage, "failure": v.message, "case": v.case,
        });
        std::fs::write(&path, serde_json::to_vec_pretty(&body).unwrap()).expect("write replay");
        println!("VIOLATION property={} replay={}", m.id, path.display());
        println!("  failure: {}", v.message.replace('\n', " | "));
    }

    // ---- evidence
    let mut samples = total.first_samples.clone();
    samples.extend(total.reservoir.iter().cloned());
    let wall = start.elapsed().as_secs_f64();
    let evidence = json!({
        "property_id": m.id,
        "tier": tier.name(),
        "seed": seed as i64,
        "level": "exploration",
        "coverage": {
            "evaluations": total.evaluations,
            "distinct_nontrivial": hashes.len(),
            "rule": m.rule,
            "samples": samples,
            "classes": total.labels,
            "generated_evaluations": gen_evals,
            "replayed_files": replayed,
            "discards": total.discards,
            "shards": nshards,
            "extra": total.extra,
            "fuzz": fuzz_info,
            "known_findings_hit": known_hits.iter().filter(|k| k.still_fails).map(|k| k.id.clone()).collect::<HashSet<_>>().into_iter().collect::<Vec<_>>(),
            "inconclusive": inconclusive,
            "exhaustive": false,
        },
        "assumptions": (m.assumptions)(),
        "wall_s": wall,
        "violations": seen_cases.len(),
    });
    let ev_dir = verif_root().join("evidence");
    let _ = std::fs::create_dir_all(&ev_dir);
    std::fs::write(
        ev_dir.join(format!("{}.json", m.id)),
        serde_json::to_vec_pretty(&evidence).unwrap(),
    )
    .expect("write evidence");
    let _ = std::fs::remove_dir_all(&work);

    println!(
        "{} {}: {} evaluations ({} generated, {} replayed), {} distinct non-trivial, {} violation(s), {:.1}s",
        m.id,
        tier.name(),
        total.evaluations,
        gen_evals,
        replayed,
        hashes.len(),
        violations.len(),
        wall
    );
    if !violations.is_empty() {
        EXIT_VIOLATION
    } else if !inconclusive.is_empty() {
        for i in &inconclusive {
            println!("INCONCLUSIVE: {i}");
        }
        EXIT_INCONCLUSIVE
    } else {
        EXIT_OK
    }
}

/// Builds the libFuzzer target with `cargo +nightly fuzz build` (against /repo's working tree)
/// and runs 8 independent instances of it (different seeds, fresh corpus directories;
/// -len_control=0 lets libFuzzer use the full length at once). A crash artifact is decoded back
/// into a case and re-checked in-process: only a case that fails the property's own check
/// becomes a violation.
fn fuzz_stage(m: &PropMeta, target: &str, runs: u64, seed: u64, work: &Path) -> (serde_json::Value, Vec<Violation>, Vec<String>) {
    let fuzz_dir = verif_root().join("harness");
    let mut viol = vec![];
    let mut inc = vec![];
    let t0 = Instant::now();
    let build = Command::new("cargo")
        .current_dir(&fuzz_dir)
        .env("CARGO_NET_OFFLINE", "true")
        .env_remove("CARGO_TARGET_DIR")
        // no sanitizer: the crate has no unsafe code, and the semantic oracle inside the target is
        // what decides; without ASan the targets run about three times as many cases per second
        .args(["+nightly", "fuzz", "build", "-s", "none", target])
        .output();
    match build {
        Ok(o) if o.status.success() => {}
        Ok(o) => {
            let tail: String = String::from_utf8_lossy(&o.stderr).lines().rev().take(8).collect::<Vec<_>>().join(" | ");
            inc.push(format!("fuzz target {target} does not build: {tail}"));
            return (serde_json::Value::Null, viol, inc);
        }
        Err(e) => {
            inc.push(format!("cargo fuzz could not be started: {e}"));
            return (serde_json::Value::Null, viol, inc);
        }
    }
    let bin = fuzz_dir.join("fuzz/target/x86_64-unknown-linux-gnu/release").join(target);
    let jobs = 8u64;
    let mut procs = vec![];
    for j in 0..jobs {
        let corpus = work.join(format!("corpus-{target}-{j}"));
        let artifacts = work.join(format!("artifacts-{target}-{j}"));
        let _ = std::fs::create_dir_all(&corpus);
        let _ = std::fs::create_dir_all(&artifacts);
        let child = Command::new(&bin)
            .arg(&corpus)
            .arg(format!("-runs={}", runs / jobs))
            .arg(format!("-seed={}", ((seed.wrapping_mul(31).wrapping_add(j)) % 0xffff_fff0) + 1))
            .arg("-len_control=0")
            .arg("-max_len=256")
            .arg("-print_final_stats=1")
            .arg(format!("-artifact_prefix={}/", artifacts.display()))
            .env("TUV_WORK", work.join(format!("fz{j}")))
            .stdin(Stdio::null())
            .stdout(Stdio::null())
            .stderr(std::fs::File::create(work.join(format!("fuzz-{target}-{j}.log"))).map(Stdio::from).unwrap_or_else(|_| Stdio::null()))
            .spawn();
        match child {
            Ok(c) => procs.push((j, c, corpus, artifacts)),
            Err(e) => inc.push(format!("fuzz binary could not be started: {e}")),
        }
    }
    let mut execs = 0u64;
    let mut corpus_size = 0usize;
    let mut crashes = 0;
    let mut cov = 0u64;
    for (j, mut c, corpus, artifacts) in procs {
        let Ok(status) = c.wait() else { continue };
        let text = std::fs::read_to_string(work.join(format!("fuzz-{target}-{j}.log"))).unwrap_or_default();
        let mut this = 0u64;
        for l in text.lines() {
            if let Some(r) = l.strip_prefix("stat::number_of_executed_units:") {
                this = r.trim().parse::<u64>().unwrap_or(0);
            }
            if let Some(p) = l.find(" cov: ") {
                if let Some(n) = l[p + 6..].split_whitespace().next().and_then(|x| x.parse::<u64>().ok()) {
                    cov = cov.max(n);
                }
            }
        }
        execs += this;
        corpus_size += std::fs::read_dir(&corpus).map(|d| d.count()).unwrap_or(0);
        if let Ok(rd) = std::fs::read_dir(&artifacts) {
            for e in rd.flatten() {
                let name = e.file_name().to_string_lossy().to_string();
                if !(name.starts_with("crash-") || name.starts_with("timeout-") || name.starts_with("oom-")) {
                    continue;
                }
                crashes += 1;
                let bytes = std::fs::read(e.path()).unwrap_or_default();
                match (m.fuzz_decode)(&bytes) {
                    Some(case) => match (m.check_json)(&case) {
                        Ok(Some(msg)) => viol.push(Violation { case, message: format!("found by libFuzzer target {target}: {msg}"), original_case: None, stage: "fuzz".into(), seed, shard: 0 }),
                        Ok(None) => {
                            let keep = verif_root().join("replays/found").join(format!("{}-fuzz-artifact-{name}", m.id));
                            let _ = std::fs::create_dir_all(keep.parent().unwrap());
                            let _ = std::fs::copy(e.path(), &keep);
                            inc.push(format!("fuzz target {target} produced {name} but the decoded case passes the check when re-run (artifact kept at {})", keep.display()));
                        }
                        Err(e2) => inc.push(format!("artifact {name} does not decode: {e2}")),
                    },
                    None => inc.push(format!("artifact {name} does not decode into a case")),
                }
            }
        }
        if !status.success() && this == 0 && !text.contains("Done ") {
            let tail: String = text.lines().rev().take(4).collect::<Vec<_>>().join(" | ");
            if crashes == 0 {
                inc.push(format!("fuzz instance of {target} failed to run: {tail}"));
            }
        }
    }
    let info = json!({"target": target, "executions": execs, "corpus_files": corpus_size, "edge_coverage": cov, "crash_artifacts": crashes, "wall_s": t0.elapsed().as_secs_f64(), "engine": "libFuzzer (cargo-fuzz build -s none, overflow checks and debug assertions on), 8 independent instances, -len_control=0, max_len 256"});
    (info, viol, inc)
}
