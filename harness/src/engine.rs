//! Engine: proptest-driven generated search with an explicit oracle per property.
//!
//! Process model: `tuv check CNN <tier>` is the *parent*. It starts child processes
//! (`tuv shard ...`), one for the replay tier and N for the generated tier, collects their
//! result files, merges them into the evidence file, prints VIOLATION / KNOWN-FINDING lines
//! and chooses the exit status. A child runs exactly one single-threaded proptest
//! `TestRunner`, so global state (panic hook, schedule controller, background threads of the
//! code under test) is never shared between cases of different shards, and a case that never
//! returns can be detected by the child's watchdog thread and ended with `process::exit`.
use proptest::strategy::{BoxedStrategy, Strategy};
use proptest::test_runner::{Config, RngAlgorithm, TestCaseError, TestError, TestRng, TestRunner};
use serde::de::DeserializeOwned;
use serde::{Deserialize, Serialize};
use std::cell::RefCell;
use std::collections::hash_map::DefaultHasher;
use std::collections::{BTreeMap, HashSet};
use std::fmt::Debug;
use std::hash::{Hash, Hasher};
use std::io::Write;
use std::path::{Path, PathBuf};
use std::sync::atomic::{AtomicBool, AtomicU64, Ordering};
use std::sync::Mutex;
use std::time::{Duration, Instant};

pub const EXIT_OK: i32 = 0;
pub const EXIT_VIOLATION: i32 = 1;
pub const EXIT_INCONCLUSIVE: i32 = 2;
pub const EXIT_INTERNAL: i32 = 3;
pub const EXIT_HANG: i32 = 4; // child only

// ---------------------------------------------------------------------------------------
// outcome of one case

#[derive(Debug, Default, Clone)]
pub struct Outcome {
    pub fail: Option<String>,
    pub nontrivial: bool,
    pub labels: Vec<&'static str>,
    pub discard: Option<&'static str>,
}

impl Outcome {
    pub fn new() -> Self {
        Self::default()
    }
    pub fn label(&mut self, l: &'static str) {
        if !self.labels.contains(&l) {
            self.labels.push(l);
        }
    }
    pub fn label_if(&mut self, cond: bool, l: &'static str) {
        if cond {
            self.label(l);
        }
    }
    pub fn fail(&mut self, msg: impl Into<String>) {
        if self.fail.is_none() {
            self.fail = Some(msg.into());
        }
    }
    pub fn failed(&self) -> bool {
        self.fail.is_some()
    }
}

/// `ensure!(out, cond, "fmt", args..)`: record a failure and return from the check.
#[macro_export]
macro_rules! ensure {
    ($out:expr, $cond:expr, $($arg:tt)*) => {
        if !($cond) {
            $out.fail(format!($($arg)*));
            return $out;
        }
    };
}

#[derive(Debug, Clone, Copy, PartialEq, Eq)]
pub enum Tier {
    Quick,
    Thorough,
}

impl Tier {
    pub fn name(&self) -> &'static str {
        match self {
            Tier::Quick => "quick",
            Tier::Thorough => "thorough",
        }
    }
}

pub struct Budget {
    /// cases per shard
    pub cases: u32,
    pub shards: u32,
}

pub trait Prop: 'static {
    type Case: Debug + Clone + Serialize + DeserializeOwned + Send + 'static;
    const ID: &'static str;
    /// rule text for evidence: generator + what makes a case non-trivial
    const RULE: &'static str;
    /// does the property statement itself claim termination (hang => violation)
    const CLAIMS_TERMINATION: bool = false;
    /// labels that must occur at least once in a generated run, otherwise the run is vacuous
    const ESSENTIAL: &'static [&'static str] = &[];
    /// seconds without progress inside one case before the watchdog gives up
    const HANG_SECS: u64 = 60;
    fn budget(tier: Tier) -> Budget;
    fn strategy(tier: Tier, shard: u32) -> BoxedStrategy<Self::Case>;
    /// `strict` = no exclusion of recorded known-finding classes (used when a known finding
    /// itself is replayed); the generated and replay tiers run with `strict = false`.
    fn check(case: &Self::Case, strict: bool) -> Outcome;
    fn assumptions() -> Vec<String>;
    /// libFuzzer target (harness/fuzz) whose oracle is this property's `check`, run in the
    /// thorough tier; `fuzz_decode` is the byte -> case decoder shared with the target
    const FUZZ_TARGET: Option<&'static str> = None;
    const FUZZ_RUNS: u64 = 0;
    fn fuzz_decode(_bytes: &[u8]) -> Option<Self::Case> {
        None
    }
    /// one-time self test of models/generators (harness bug if it fails)
    fn self_test() -> Result<(), String> {
        Ok(())
    }
    /// optional extra deterministic stage (e.g. bounded exhaustive enumeration) run by shard 0
    /// of the thorough tier; returns (evaluations, Some(failure description + case json))
    fn extra_stage(_tier: Tier, _shard: u32, _stats: &mut Stats) -> Option<(serde_json::Value, String)> {
        None
    }
}

// ---------------------------------------------------------------------------------------
// panic capture

#[derive(Debug, Clone)]
pub struct PanicRec {
    pub thread: String,
    pub msg: String,
    pub loc: String,
    pub in_repo: bool,
    pub in_harness_loc: bool,
}

static PANICS: Mutex<Vec<PanicRec>> = Mutex::new(Vec::new());
static QUIET: AtomicBool = AtomicBool::new(true);

pub fn install_panic_hook() {
    std::panic::set_hook(Box::new(|info| {
        let loc = info
            .location()
            .map(|l| format!("{}:{}", l.file(), l.line()))
            .unwrap_or_else(|| "?".into());
        let msg = if let Some(s) = info.payload().downcast_ref::<&str>() {
            s.to_string()
        } else if let Some(s) = info.payload().downcast_ref::<String>() {
            s.clone()
        } else {
            "<non-string panic payload>".to_string()
        };
        let bt = std::backtrace::Backtrace::force_capture().to_string();
        let in_repo = bt.contains("text_utils::") || loc.starts_with("/repo/");
        // harness files are compiled with relative paths ("src/...")
        let in_harness_loc = loc.starts_with("src/");
        let thread = std::thread::current().name().unwrap_or("?").to_string();
        if !QUIET.load(Ordering::Relaxed) {
            eprintln!("[panic] thread={thread} loc={loc} msg={msg}");
        }
        if let Ok(mut p) = PANICS.lock() {
            p.push(PanicRec {
                thread,
                msg,
                loc,
                in_repo,
                in_harness_loc,
            });
        }
    }));
}

pub fn panic_mark() -> usize {
    PANICS.lock().map(|p| p.len()).unwrap_or(0)
}

pub fn panics_since(mark: usize) -> Vec<PanicRec> {
    PANICS
        .lock()
        .map(|p| p[mark.min(p.len())..].to_vec())
        .unwrap_or_default()
}

pub fn forget_panics_since(mark: usize) {
    if let Ok(mut p) = PANICS.lock() {
        p.truncate(mark);
    }
}

/// Run `f`, catching a panic. Returns Err(description) if it panicked; the recorded panic
/// entries are removed (the caller decides what the panic means).
pub fn catch<R>(f: impl FnOnce() -> R) -> Result<R, String> {
    let mark = panic_mark();
    let r = std::panic::catch_unwind(std::panic::AssertUnwindSafe(f));
    match r {
        Ok(v) => Ok(v),
        Err(_) => {
            let recs = panics_since(mark);
            forget_panics_since(mark);
            let d = recs
                .last()
                .map(|r| format!("{} at {}", r.msg, r.loc))
                .unwrap_or_else(|| "panic".into());
            // a panic located in harness code is a harness bug even inside `catch`
            if recs.iter().any(|r| r.in_harness_loc) {
                internal_error(&format!("panic in harness code: {recs:?}"));
            }
            Err(d)
        }
    }
}

pub fn internal_error(msg: &str) -> ! {
    FINISHED.store(true, Ordering::SeqCst);
    eprintln!("INTERNAL-ERROR: {msg}");
    std::process::exit(EXIT_INTERNAL)
}

// ---------------------------------------------------------------------------------------
// a foreign panic hook (Pipe::new installs one that calls process::exit(1)) can end the process in
// the middle of a case: an atexit handler records which case it was

static FINISHED: AtomicBool = AtomicBool::new(false);
static DIED_FILE: Mutex<Option<PathBuf>> = Mutex::new(None);
static REPLAY_ID: Mutex<Option<(String, String)>> = Mutex::new(None);

extern "C" fn on_exit() {
    if FINISHED.load(Ordering::SeqCst) {
        return;
    }
    let case = CURRENT_CASE.try_lock().ok().and_then(|c| c.clone()).unwrap_or_else(|| "null".into());
    if let Ok(g) = DIED_FILE.try_lock() {
        if let Some(p) = g.as_ref() {
            let _ = std::fs::write(p, &case);
        }
    }
    if let Ok(g) = REPLAY_ID.try_lock() {
        if let Some((id, file)) = g.as_ref() {
            println!("FAIL: the process was terminated while this case was being checked (a panic reached the exit-on-panic hook installed by Pipe::new)");
            println!("VIOLATION property={id} replay={file}");
        }
    }
}

fn register_exit_handler() {
    unsafe {
        libc::atexit(on_exit);
    }
}

// ---------------------------------------------------------------------------------------
// watchdog

static HEARTBEAT: AtomicU64 = AtomicU64::new(0);
static CURRENT_CASE: Mutex<Option<String>> = Mutex::new(None);
static WATCHDOG_PAUSED: AtomicBool = AtomicBool::new(false);

pub fn beat() {
    HEARTBEAT.fetch_add(1, Ordering::Relaxed);
}

fn start_watchdog(hang_secs: u64, hang_file: PathBuf) {
    std::thread::Builder::new()
        .name("tuv-watchdog".into())
        .spawn(move || {
            let mut last = HEARTBEAT.load(Ordering::Relaxed);
            let mut since = Instant::now();
            loop {
                std::thread::sleep(Duration::from_millis(500));
                let now = HEARTBEAT.load(Ordering::Relaxed);
                if now != last || WATCHDOG_PAUSED.load(Ordering::Relaxed) {
                    last = now;
                    since = Instant::now();
                    continue;
                }
                if since.elapsed() >= Duration::from_secs(hang_secs) {
                    let case = CURRENT_CASE
                        .try_lock()
                        .ok()
                        .and_then(|c| c.clone())
                        .unwrap_or_else(|| "null".into());
                    let panics: Vec<String> = panics_since(0)
                        .into_iter()
                        .filter(|p| p.in_repo && !p.in_harness_loc)
                        .map(|p| format!("{} at {} (thread {})", p.msg, p.loc, p.thread))
                        .collect();
                    let body = format!(
                        "{{\"case\": {case}, \"panics\": {}}}",
                        serde_json::to_string(&panics).unwrap_or_else(|_| "[]".into())
                    );
                    let _ = std::fs::write(&hang_file, body);
                    eprintln!("[watchdog] no progress for {hang_secs}s, giving up on this case");
                    std::process::exit(EXIT_HANG);
                }
            }
        })
        .expect("watchdog");
}

// ---------------------------------------------------------------------------------------
// statistics

#[derive(Debug, Default, Serialize, Deserialize, Clone)]
pub struct Stats {
    pub evaluations: u64,
    pub nontrivial: u64,
    pub labels: BTreeMap<String, u64>,
    pub discards: BTreeMap<String, u64>,
    #[serde(skip)]
    pub nt_hashes: HashSet<u64>,
    pub first_samples: Vec<serde_json::Value>,
    pub reservoir: Vec<serde_json::Value>,
    #[serde(skip)]
    seen_nt: u64,
    pub extra: BTreeMap<String, serde_json::Value>,
}

fn hash_json(s: &str) -> u64 {
    let mut h = DefaultHasher::new();
    s.hash(&mut h);
    h.finish()
}

impl Stats {
    pub fn record<C: Serialize>(&mut self, case: &C, out: &Outcome) {
        self.evaluations += 1;
        for l in &out.labels {
            *self.labels.entry((*l).to_string()).or_insert(0) += 1;
        }
        if let Some(d) = out.discard {
            *self.discards.entry(d.to_string()).or_insert(0) += 1;
        }
        if out.nontrivial && out.discard.is_none() {
            self.nontrivial += 1;
            let js = serde_json::to_string(case).unwrap_or_default();
            let h = hash_json(&js);
            if self.nt_hashes.insert(h) {
                self.seen_nt += 1;
                if self.first_samples.len() < 3 {
                    self.first_samples
                        .push(serde_json::from_str(&js).unwrap_or(serde_json::Value::Null));
                } else if self.reservoir.len() < 5 {
                    self.reservoir
                        .push(serde_json::from_str(&js).unwrap_or(serde_json::Value::Null));
                } else {
                    // deterministic reservoir: replace slot chosen by the case hash
                    let k = h % self.seen_nt;
                    if (k as usize) < self.reservoir.len() {
                        self.reservoir[k as usize] =
                            serde_json::from_str(&js).unwrap_or(serde_json::Value::Null);
                    }
                }
            }
        }
    }
}

#[derive(Debug, Serialize, Deserialize, Clone)]
pub struct Violation {
    pub case: serde_json::Value,
    pub message: String,
    pub original_case: Option<serde_json::Value>,
    pub stage: String,
    pub seed: u64,
    pub shard: u32,
}

#[derive(Debug, Serialize, Deserialize, Clone)]
pub struct KnownHit {
    pub id: String,
    pub what: String,
    pub still_fails: bool,
}

#[derive(Debug, Serialize, Deserialize, Clone, Default)]
pub struct ShardResult {
    pub stats: Stats,
    pub violation: Option<Violation>,
    pub known_hits: Vec<KnownHit>,
    pub wall_s: f64,
    pub vacuous: Option<String>,
    pub replayed: u64,
}

// ---------------------------------------------------------------------------------------
// known findings

#[derive(Debug, Serialize, Deserialize, Clone)]
pub struct KnownFinding {
    pub kind: String, // "finding" | "fixed"
    pub property: String,
    #[serde(default)]
    pub id: String,
    #[serde(default)]
    pub what: String,
    #[serde(default)]
    pub commit: String,
    /// for kind=finding: the exact case (in the property's Case schema) that fails
    #[serde(default)]
    pub case: Option<serde_json::Value>,
}

pub fn verif_root() -> PathBuf {
    std::env::var("TUV_VERIF_ROOT")
        .map(PathBuf::from)
        .unwrap_or_else(|_| PathBuf::from("/verif"))
}

pub fn load_known_findings(prop: &str) -> Vec<KnownFinding> {
    let p = verif_root().join("known_findings.jsonl");
    let Ok(s) = std::fs::read_to_string(&p) else {
        return vec![];
    };
    s.lines()
        .filter(|l| !l.trim().is_empty())
        .filter_map(|l| match serde_json::from_str::<KnownFinding>(l) {
            Ok(k) => Some(k),
            Err(e) => internal_error(&format!("known_findings.jsonl: bad line {l}: {e}")),
        })
        .filter(|k| k.property == prop && k.kind == "finding")
        .collect()
}

// ---------------------------------------------------------------------------------------
// running one case with panic attribution

thread_local! {
    static IN_SHRINK: RefCell<bool> = const { RefCell::new(false) };
}

pub fn run_case<P: Prop>(case: &P::Case, strict: bool) -> Outcome {
    if let Ok(mut c) = CURRENT_CASE.lock() {
        *c = serde_json::to_string(case).ok();
    }
    beat();
    let mark = panic_mark();
    let r = std::panic::catch_unwind(std::panic::AssertUnwindSafe(|| P::check(case, strict)));
    // Pipe::new / train_bpe replace the global hook; always put ours back
    install_panic_hook();
    let recs = panics_since(mark);
    forget_panics_since(mark);
    beat();
    let mut out = match r {
        Ok(o) => o,
        Err(_) => {
            let mut o = Outcome::new();
            o.fail("panic (unwound into the check)");
            o
        }
    };
    if !recs.is_empty() {
        if let Some(h) = recs.iter().find(|r| r.in_harness_loc) {
            internal_error(&format!(
                "panic located in harness code while checking {}: {} at {} (case {:?})",
                P::ID,
                h.msg,
                h.loc,
                case
            ));
        }
        if let Some(h) = recs.iter().find(|r| !r.in_repo) {
            internal_error(&format!(
                "panic without any text_utils frame while checking {}: {} at {} (case {:?})",
                P::ID,
                h.msg,
                h.loc,
                case
            ));
        }
        let r0 = &recs[0];
        out.fail = Some(format!(
            "panic in code under test: {} at {} (thread {}){}",
            r0.msg,
            r0.loc,
            r0.thread,
            out.fail
                .as_ref()
                .map(|f| format!("; check said: {f}"))
                .unwrap_or_default()
        ));
    }
    out
}

// ---------------------------------------------------------------------------------------
// shard (child process)

pub struct ShardArgs {
    pub tier: Tier,
    pub seed: u64,
    pub shard: u32,
    pub nshards: u32,
    pub out: PathBuf,
    pub replay_files: Vec<PathBuf>,
    pub replay_only: bool,
    pub cases_override: Option<u32>,
}

fn shard_seed(seed: u64, id: &str, shard: u32) -> [u8; 32] {
    let mut out = [0u8; 32];
    for (i, chunk) in out.chunks_mut(8).enumerate() {
        let mut h = DefaultHasher::new();
        (seed, id, shard, i as u64, 0x7475_7631u32).hash(&mut h);
        chunk.copy_from_slice(&h.finish().to_le_bytes());
    }
    out
}

fn write_result(path: &Path, res: &ShardResult) {
    FINISHED.store(true, Ordering::SeqCst);
    let js = serde_json::to_vec(res).expect("serialize shard result");
    std::fs::write(path, js).expect("write shard result");
    // hashes of distinct non-trivial cases, for the parent's union
    let mut f = std::fs::File::create(path.with_extension("hashes")).expect("hash file");
    let mut buf = Vec::with_capacity(res.stats.nt_hashes.len() * 8);
    for h in &res.stats.nt_hashes {
        buf.extend_from_slice(&h.to_le_bytes());
    }
    f.write_all(&buf).expect("write hashes");
}

pub fn run_shard<P: Prop>(args: ShardArgs) -> i32 {
    install_panic_hook();
    *DIED_FILE.lock().unwrap() = Some(args.out.with_extension("died"));
    register_exit_handler();
    start_watchdog(P::HANG_SECS, args.out.with_extension("hang"));
    let start = Instant::now();
    let mut res = ShardResult::default();

    if let Err(e) = P::self_test() {
        internal_error(&format!("{} self test failed: {e}", P::ID));
    }
    install_panic_hook();

    // ---- known findings (replayed by the replay shard only)
    let known = load_known_findings(P::ID);
    if args.replay_only {
        for k in &known {
            let Some(cj) = &k.case else { continue };
            let case: P::Case = match serde_json::from_value(cj.clone()) {
                Ok(c) => c,
                Err(e) => internal_error(&format!("known finding {} does not parse: {e}", k.id)),
            };
            let out = run_case::<P>(&case, true);
            res.known_hits.push(KnownHit {
                id: k.id.clone(),
                what: k.what.clone(),
                still_fails: out.failed(),
            });
        }
        // ---- replay tier
        for f in &args.replay_files {
            let txt = match std::fs::read_to_string(f) {
                Ok(t) => t,
                Err(e) => internal_error(&format!("cannot read replay {f:?}: {e}")),
            };
            let v: serde_json::Value = match serde_json::from_str(&txt) {
                Ok(v) => v,
                Err(e) => internal_error(&format!("replay {f:?} is not json: {e}")),
            };
            let cj = v.get("case").cloned().unwrap_or(v.clone());
            let case: P::Case = match serde_json::from_value(cj.clone()) {
                Ok(c) => c,
                Err(e) => {
                    // schema drift of a found/ replay is not an alarm
                    eprintln!("[replay] {f:?} does not match the case schema any more: {e}");
                    continue;
                }
            };
            let out = run_case::<P>(&case, false);
            res.replayed += 1;
            res.stats.record(&case, &out);
            if let Some(msg) = out.fail {
                let is_known = known.iter().any(|k| k.case.as_ref() == Some(&cj));
                if is_known {
                    continue;
                }
                res.violation = Some(Violation {
                    case: cj,
                    message: format!("replay {}: {msg}", f.display()),
                    original_case: None,
                    stage: "replay".into(),
                    seed: args.seed,
                    shard: args.shard,
                });
                break;
            }
        }
        res.wall_s = start.elapsed().as_secs_f64();
        write_result(&args.out, &res);
        return if res.violation.is_some() {
            EXIT_VIOLATION
        } else {
            EXIT_OK
        };
    }

    // ---- generated tier
    let budget = P::budget(args.tier);
    let cases = args.cases_override.unwrap_or(budget.cases);
    let mut remaining = cases;
    let mut round = 0u32;
    let stats = RefCell::new(Stats::default());
    let failed_flag = RefCell::new(false);
    while remaining > 0 {
        let config = Config {
            cases: remaining,
            failure_persistence: None,
            max_shrink_iters: 4096,
            max_shrink_time: 120_000,
            max_global_rejects: 1_000_000,
            max_local_rejects: 1_000_000,
            ..Config::default()
        };
        let rng = TestRng::from_seed(
            RngAlgorithm::ChaCha,
            &shard_seed(args.seed.wrapping_add(round as u64 * 0x9e37), P::ID, args.shard),
        );
        let mut runner = TestRunner::new_with_rng(config, rng);
        let strategy = P::strategy(args.tier, args.shard);
        *failed_flag.borrow_mut() = false;
        let before = stats.borrow().evaluations;
        let result = runner.run(&strategy, |case| {
            let out = run_case::<P>(&case, false);
            if !*failed_flag.borrow() {
                stats.borrow_mut().record(&case, &out);
            }
            match out.fail {
                None => Ok(()),
                Some(msg) => {
                    *failed_flag.borrow_mut() = true;
                    Err(TestCaseError::fail(msg))
                }
            }
        });
        let done = (stats.borrow().evaluations - before) as u32;
        match result {
            Ok(()) => break,
            Err(TestError::Fail(reason, shrunk)) => {
                let cj = serde_json::to_value(&shrunk).unwrap_or(serde_json::Value::Null);
                // re-check the shrunk case to get its own message
                let out = run_case::<P>(&shrunk, false);
                let msg = out.fail.unwrap_or_else(|| reason.message().to_string());
                if let Some(k) = known.iter().find(|k| k.case.as_ref() == Some(&cj)) {
                    res.known_hits.push(KnownHit {
                        id: k.id.clone(),
                        what: k.what.clone(),
                        still_fails: true,
                    });
                    remaining = remaining.saturating_sub(done.max(1));
                    round += 1;
                    continue;
                }
                res.violation = Some(Violation {
                    case: cj,
                    message: msg,
                    original_case: None,
                    stage: "generated".into(),
                    seed: args.seed,
                    shard: args.shard,
                });
                break;
            }
            Err(TestError::Abort(reason)) => {
                res.vacuous = Some(format!("proptest aborted: {reason}"));
                break;
            }
        }
    }
    let mut st = stats.into_inner();

    // ---- extra deterministic stage
    if res.violation.is_none() {
        if let Some((cj, msg)) = P::extra_stage(args.tier, args.shard, &mut st) {
            res.violation = Some(Violation {
                case: cj,
                message: msg,
                original_case: None,
                stage: "extra".into(),
                seed: args.seed,
                shard: args.shard,
            });
        }
        install_panic_hook();
    }
    res.stats = st;
    res.wall_s = start.elapsed().as_secs_f64();
    write_result(&args.out, &res);
    if res.violation.is_some() {
        EXIT_VIOLATION
    } else {
        EXIT_OK
    }
}

/// Replay a single file, verbosely (used by `./check CNN --replay <file>` and by the parent to
/// confirm hangs).
pub fn replay_one<P: Prop>(file: &Path) -> i32 {
    install_panic_hook();
    *REPLAY_ID.lock().unwrap() = Some((P::ID.to_string(), file.display().to_string()));
    register_exit_handler();
    QUIET.store(false, Ordering::Relaxed);
    start_watchdog(P::HANG_SECS, PathBuf::from("/dev/null"));
    let txt = std::fs::read_to_string(file).unwrap_or_else(|e| internal_error(&format!("{e}")));
    let v: serde_json::Value =
        serde_json::from_str(&txt).unwrap_or_else(|e| internal_error(&format!("{e}")));
    let cj = v.get("case").cloned().unwrap_or(v.clone());
    let case: P::Case = serde_json::from_value(cj)
        .unwrap_or_else(|e| internal_error(&format!("replay file does not parse: {e}")));
    let out = run_case::<P>(&case, std::env::var("TUV_STRICT").is_ok());
    FINISHED.store(true, Ordering::SeqCst);
    println!("case: {case:?}");
    println!("labels: {:?} nontrivial: {}", out.labels, out.nontrivial);
    match out.fail {
        Some(m) => {
            println!("FAIL: {m}");
            println!("VIOLATION property={} replay={}", P::ID, file.display());
            EXIT_VIOLATION
        }
        None => {
            println!("PASS");
            EXIT_OK
        }
    }
}

// ---------------------------------------------------------------------------------------
// background threads of the code under test

pub fn thread_count() -> usize {
    std::fs::read_dir("/proc/self/task").map(|d| d.count()).unwrap_or(0)
}

/// Wait (bounded) until the process has at most `baseline` threads again, so that threads of one
/// run (pipe workers, buffer threads) cannot act - or panic - during a later case. Returns false
/// if threads are still alive after `timeout`.
pub fn wait_threads(baseline: usize, timeout: Duration) -> bool {
    let t0 = Instant::now();
    loop {
        if thread_count() <= baseline {
            return true;
        }
        if t0.elapsed() >= timeout {
            return false;
        }
        std::thread::sleep(Duration::from_micros(200));
    }
}

// ---------------------------------------------------------------------------------------
// helpers for strategies

/// Map a generated u16 monotonically onto 0..n (n > 0); shrinks towards 0.
pub fn idx16(i: u16, n: usize) -> usize {
    ((i as usize) * n) >> 16
}

pub fn boxed<S: Strategy + 'static>(s: S) -> BoxedStrategy<S::Value> {
    s.boxed()
}

// ---------------------------------------------------------------------------------------
// registry entry

pub struct PropMeta {
    pub id: &'static str,
    pub rule: &'static str,
    pub claims_termination: bool,
    pub essential: &'static [&'static str],
    pub hang_secs: u64,
    pub budget: fn(Tier) -> Budget,
    pub assumptions: fn() -> Vec<String>,
    pub run_shard: fn(ShardArgs) -> i32,
    pub fuzz_target: Option<&'static str>,
    pub fuzz_runs: u64,
    pub fuzz_decode: fn(&[u8]) -> Option<serde_json::Value>,
    pub check_json: fn(&serde_json::Value) -> Result<Option<String>, String>,
    pub replay_one: fn(&Path) -> i32,
}

pub fn meta<P: Prop>() -> PropMeta {
    PropMeta {
        id: P::ID,
        rule: P::RULE,
        claims_termination: P::CLAIMS_TERMINATION,
        essential: P::ESSENTIAL,
        hang_secs: P::HANG_SECS,
        budget: P::budget,
        assumptions: P::assumptions,
        run_shard: run_shard::<P>,
        fuzz_target: P::FUZZ_TARGET,
        fuzz_runs: P::FUZZ_RUNS,
        fuzz_decode: |b| P::fuzz_decode(b).and_then(|c| serde_json::to_value(&c).ok()),
        check_json: |v| {
            let c: P::Case = serde_json::from_value(v.clone()).map_err(|e| e.to_string())?;
            install_panic_hook();
            Ok(run_case::<P>(&c, false).fail)
        },
        replay_one: replay_one::<P>,
    }
}

