#![no_main]
use libfuzzer_sys::fuzz_target;
use tuv::engine::Prop;

// The semantic oracle lives inside the target: the decoded case is run through the same
// check function as the proptest tier; a failed check aborts the process (= fuzzer crash).
fuzz_target!(|data: &[u8]| {
    if let Some(case) = tuv::fuzzdec::c15(data) {
        let out = tuv::props::c15::C15::check(&case, false);
        if let Some(f) = out.fail {
            panic!("VIOLATION {}: {f}", stringify!(c15));
        }
    }
});
