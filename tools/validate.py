#!/usr/bin/env python3
"""Validate MANIFEST.json and every evidence file against the schemas (python3-vt has jsonschema)."""
import json, glob, sys, jsonschema
ok = True
def v(path, schema):
    global ok
    try:
        jsonschema.validate(json.load(open(path)), json.load(open(schema)))
        print("ok  ", path)
    except Exception as e:
        ok = False
        print("FAIL", path, str(e)[:300])
v('/verif/MANIFEST.json', '/root/.vp/MANIFEST.schema.json')
for f in sorted(glob.glob('/verif/evidence/*.json')):
    v(f, '/root/.vp/EVIDENCE.schema.json')
sys.exit(0 if ok else 1)
