#!/bin/bash
# tools/mutant_run.sh <patch-file> <ID>[,<ID>...] [tier] [--with-tests]
# Applies a patch to a scratch copy of /repo (never to /repo itself), builds the harness against
# the copy in a scratch target dir, runs the given checks there with a scratch verif root and
# prints their verdict lines. Everything is removed afterwards.
set -u
PATCH=$(realpath "$1"); IDS=$2; TIER=${3:-quick}; WITH_TESTS=${4:-}
S=$(mktemp -d /tmp/tuv-mut-XXXXXX)
# a sweep may pin the harness sources / warm target it started with (snapshot dirs)
[ -z "${TUV_HARNESS_SRC:-}" ] && [ -d /tmp/harness-snap ] && TUV_HARNESS_SRC=/tmp/harness-snap
[ -z "${TUV_TARGET_SRC:-}" ] && [ -d /tmp/target-snap ] && TUV_TARGET_SRC=/tmp/target-snap
trap 'rm -rf "$S"' EXIT
mkdir -p "$S/verif"
rsync -a --exclude target --exclude .git /repo/ "$S/repo/"
( cd "$S/repo" && patch -p1 -s < "$PATCH" ) || { echo "PATCH-FAILED $PATCH"; exit 3; }
rsync -a --exclude target "${TUV_HARNESS_SRC:-/verif/harness}/" "$S/harness/"
sed -i "s|path = \"/repo\"|path = \"$S/repo\"|" "$S/harness/Cargo.toml"
cp -a /verif/replays "$S/verif/replays" 2>/dev/null; rm -rf "$S/verif/replays/found"
cp /verif/known_findings.jsonl "$S/verif/" 2>/dev/null
# warm start from the main target dir
cp -a --reflink=auto "${TUV_TARGET_SRC:-/verif/target}" "$S/target" 2>/dev/null
export CARGO_NET_OFFLINE=true CARGO_TARGET_DIR="$S/target" TUV_VERIF_ROOT="$S/verif"
if [ "$WITH_TESTS" = "--with-tests" ]; then
  ( cd "$S/repo" && CARGO_TARGET_DIR="$S/rtarget" cargo test --offline 2>&1 | grep -E "^test result|FAILED|failed" | head -5 )
fi
( cd "$S/harness" && cargo build --release --offline -q 2>"$S/build.log" ) || { echo "BUILD-FAILED"; tail -20 "$S/build.log"; exit 2; }
rc_all=0
for ID in ${IDS//,/ }; do
  "$S/target/release/tuv" check "$ID" "$TIER" 2>/dev/null | grep -E "VIOLATION|failure:|INCONCLUSIVE|KNOWN-FINDING|$ID $TIER" | cut -c1-300 | sort | uniq -c | sort -rn | head -6
  echo "exit[$ID]=${PIPESTATUS[0]}"
done
