#!/bin/bash
# tools/run_all_seeded.sh [jobs]: runs every /verif/seeded/S*/patch.diff against the check of its
# property (quick tier) in scratch copies; writes /verif/seeded/RESULTS.tsv (regression sweep after
# changes to the checks: every seeded change must still be reported)
cd /verif
JOBS=${1:-4}
rm -f seeded/RESULTS.tmp
ls -d seeded/S*/ | xargs -P "$JOBS" -I{} bash -c '
  d={}; name=$(basename "$d"); id=$(python3 -c "import json,sys;print(json.load(open(sys.argv[1]))[\"property\"])" "$d/meta.json")
  out=$(tools/mutant_run.sh "$d/patch.diff" "$id" quick 2>&1)
  code=$(echo "$out" | grep -o "exit\[$id\]=[0-9]*" | cut -d= -f2)
  first=$(echo "$out" | grep -m1 "failure:" | sed "s/^ *[0-9]* *//" | cut -c1-200)
  [ -z "$code" ] && first=$(echo "$out" | tail -3 | tr "\n" " " | cut -c1-200)
  printf "%s\t%s\t%s\n" "$name" "${code:-ERR}" "$first" >> seeded/RESULTS.tmp
  echo "$name -> ${code:-ERR}"
'
sort seeded/RESULTS.tmp > seeded/RESULTS.tsv; rm -f seeded/RESULTS.tmp
awk -F"\t" '{c[$2]++} END {for (k in c) print "exit", k, c[k]}' seeded/RESULTS.tsv
