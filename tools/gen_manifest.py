#!/usr/bin/env python3
"""Regenerates /verif/MANIFEST.json from the table below (keeps it valid at all times)."""
import json, os, subprocess
ROOT = os.path.dirname(os.path.dirname(os.path.abspath(__file__)))
props = [json.loads(l) for l in open(os.path.join(ROOT, "properties.jsonl"))]
ids = [p["id"] for p in props]

# id -> (technique, level text, level note, design ref)
CLAIMED = {}
exec(open(os.path.join(ROOT, "tools", "claimed.py")).read())

hook_commits = subprocess.run(
    ["git", "-C", "/repo", "log", "--format=%h %s", "--grep=^verif hook"],
    capture_output=True, text=True).stdout.strip().splitlines()

checks, na = [], []
for i in ids:
    if i in CLAIMED:
        tech, text, note, ref = CLAIMED[i]
        checks.append({
            "property_id": i,
            "quick_cmd": f"./check {i} quick",
            "thorough_cmd": f"./check {i} thorough",
            "evidence_file": f"/verif/evidence/{i}.json",
            "replay_cmd_template": f"./check {i} --replay {{path}}",
            "engine": "tuv",
            "level_claimed": {"category": "exploration", "text": text, "design_ref": ref},
            "level_note": note,
            "technique": tech,
        })
    else:
        na.append({"property_id": i, "reason": "check not built yet in this framework (work in progress; see DESIGN.md section 5 for the planned generator and oracle)"})

manifest = {
    "version": 1,
    "setup_cmd": "./setup.sh",
    "hooks": {
        "guard": "cargo feature `verif` of the text-utils crate",
        "enable": "the harness crate depends on text-utils = { path = \"/repo\", features = [\"verif\"] }; every ./check run does `cargo build --release --offline` first, which rebuilds text-utils from /repo's working tree",
        "baseline_off_cmd": "cd /repo && cargo test --workspace --no-fail-fast --offline",
        "source_commits": [c.split()[0] for c in hook_commits],
        "add_only": True,
    },
    "engines": [{
        "name": "tuv",
        "path": "/verif/harness",
        "serves_properties": sorted(CLAIMED),
        "kind_free_text": "Rust binary: proptest 1.11 TestRunner per shard process (ChaCha RNG seeded from VERIF_SEED), explicit reference-model / round-trip / differential / metamorphic oracles per property, serialising schedule controller for the threaded iterators, watchdog for non-termination, structure-aware shrinking, replay files",
    }],
    "checks": checks,
    "notes": "All checks are generated-input search against an explicit oracle (property-based testing); exit 0 held / 1 violation / 2 inconclusive / 3 harness error. Known findings: /verif/known_findings.jsonl.",
    "not_applicable": na,
}
json.dump(manifest, open(os.path.join(ROOT, "MANIFEST.json"), "w"), indent=1)
print("claimed:", sorted(CLAIMED), "not claimed:", [x["property_id"] for x in na])
