#!/bin/bash
# tools/run_all_mutants.sh [glob] [jobs]: runs every /verif/mutants/<ID>-*.patch against the check of
# its property (quick tier) in scratch copies; writes /verif/mutants/RESULTS.tsv
cd /verif
GLOB=${1:-*}; JOBS=${2:-4}
ls mutants/$GLOB.patch | xargs -P "$JOBS" -I{} bash -c '
  f={}; name=$(basename "$f" .patch); id=${name%%-*}
  out=$(tools/mutant_run.sh "$f" "$id" quick 2>&1)
  code=$(echo "$out" | grep -o "exit\[$id\]=[0-9]*" | cut -d= -f2)
  first=$(echo "$out" | grep -m1 "failure:" | sed "s/^ *[0-9]* *//" | cut -c1-220)
  [ -z "$code" ] && first=$(echo "$out" | tail -3 | tr "\n" " " | cut -c1-200)
  printf "%s\t%s\t%s\n" "$name" "${code:-ERR}" "$first" >> mutants/RESULTS.tmp
  echo "$name -> ${code:-ERR}"
'
sort mutants/RESULTS.tmp > mutants/RESULTS.tsv; rm -f mutants/RESULTS.tmp
awk -F"\t" '{c[$2]++} END {for (k in c) print k, c[k]}' mutants/RESULTS.tsv
