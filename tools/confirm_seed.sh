#!/bin/bash
# Used while collecting /verif/seeded/*: confirms an independently written breaking change in its scratch worktree
# (/tmp/wt-<ID>, outputs in /tmp/out-<ID>): existing tests pass with the change, the demonstration fails with it and passes without it.
# confirm_seed.sh <ID>: verifies the three claims for a seeded change in /tmp/wt-<ID> with outputs in /tmp/out-<ID>
ID=$1; W=/tmp/wt-$ID; O=/tmp/out-$ID; L=/tmp/confirm-$ID.log
export CARGO_TARGET_DIR=$W/target CARGO_NET_OFFLINE=true
cd $W || exit 1
git checkout -q -- src 2>/dev/null; rm -rf tests
git apply $O/patch.diff || { echo "$ID: patch does not apply" > $L; exit 1; }
{
echo "## existing tests WITH change"; cargo test --offline 2>&1 | grep -E "^test result|FAILED|failed" | head -5
mkdir -p tests; cp $O/demo/*.rs tests/
names=$(ls $O/demo/*.rs | xargs -n1 basename | sed 's/\.rs$//')
for n in $names; do
echo "## demo $n WITH change"; cargo test --offline --features verif --test $n 2>&1 | grep -E "^test result|^test .* (ok|FAILED)|panicked" | head -12
done
git apply -R $O/patch.diff
for n in $names; do
echo "## demo $n WITHOUT change"; cargo test --offline --features verif --test $n 2>&1 | grep -E "^test result|^test .* (ok|FAILED)|panicked" | head -12
done
git apply $O/patch.diff; rm -rf tests
} > $L 2>&1
echo "$ID done"
