#!/bin/bash
# tools/run_all.sh <quick|thorough> [seed ...]: runs every claimed check, prints exit status and wall time
cd /verif
TIER=${1:-quick}; shift
SEEDS=${@:-0}
for seed in $SEEDS; do
  for id in $(python3 -c "import json;print(' '.join(c['property_id'] for c in json.load(open('MANIFEST.json'))['checks']))"); do
    t0=$(date +%s.%N)
    out=$(VERIF_SEED=$seed ./check $id $TIER 2>/dev/null)
    rc=$?
    t1=$(date +%s.%N)
    printf "seed=%s %s %s exit=%s %.1fs %s\n" "$seed" "$id" "$TIER" "$rc" "$(echo "$t1 - $t0" | bc)" "$(echo "$out" | grep -E "VIOLATION|INCONCLUSIVE" | head -2 | tr '\n' ' ' | cut -c1-200)"
  done
done
