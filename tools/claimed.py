PBT = "property-based testing (proptest, generated inputs vs. explicit oracle)"
def claim(i, tech, text, note):
    CLAIMED[i] = (tech, text, note, f"DESIGN.md section 5, {i}")

claim("C01", PBT + " + coverage-guided fuzzing (libFuzzer target with the same oracle, thorough tier): independent special-token scanner + UTF-8 bytes, round trip",
  "Generated Unicode texts (incl. the case's own special-token spellings and look-alikes) x byte/char tokenizer configs x special configs; ids are compared with an independent leftmost scanner and the decode round trip is checked. Exploration: no counterexample in N generated cases.",
  "Special-token sets are prefix-free with tokens >= 2 bytes (otherwise the parse is ambiguous by construction of the regex); cluster boundaries from unicode-segmentation; texts <= ~120 bytes.")
claim("C02", PBT + " + coverage-guided fuzzing (libFuzzer target with the same oracle, thorough tier): decode(encode) round trip + table-derived byte strings",
  "Generated well-formed merge tables x texts with whitespace structure x max_vocab_size x special configs; losslessness modulo trailing whitespace, id range and UTF-8 validity are checked against the table itself.",
  "Tables <= 48 merges over small alphabets; max_vocab_size semantics as documented in the constructor.")
claim("C03", PBT + " + coverage-guided fuzzing (libFuzzer target with the same oracle, thorough tier): differential against a naive reference BPE",
  "Generated tables with chains/competing merges x words over the table alphabet; token ids must equal a quadratic rescanning reference (lowest id, leftmost).",
  "Reference BPE and the `\\s+\\S+|^\\S+` scanner are written from the statement; tables <= 32 merges, tokens <= 12 bytes.")
claim("C04", PBT + ": cross-consistency of the vocabulary maps + independent id layout",
  "All tokenizer kinds x special configs x truncation; every id in [0, vocab_size+300) and u32::MAX is queried and get_vocab / id_to_token / token_to_id / de_tokenize must agree with each other and with the expected id layout.",
  "Generated special tokens never collide with regular tokens; char vocabulary asserted as a set.")
claim("C07", PBT + ": exact sequence models (sequential, round-robin), multiset/order/determinism (weighted), step-bounded termination + watchdog",
  "Generated source-length vectors x strategy x seed; drained with a step bound, compared with exact models; a call that never returns is detected by the shard watchdog, confirmed in a fresh process and reported as a violation (the property claims termination).",
  "In-memory sources with exact declared lengths; 20 s without progress inside a microsecond computation counts as non-termination after confirmation.")
claim("C12", PBT + " + coverage-guided fuzzing (libFuzzer target with the same oracle, thorough tier): differential against a reference DP + script applier + metamorphic laws",
  "Generated pairs over dense alphabets x all flag combinations; distance, normalised distance, prefix distance, distances() and the operations() script are compared with an independent suffix-recursive reference (validated by BFS at start-up).",
  "Trusts unicode-segmentation for cluster boundaries; strings <= 40 characters. KF5 (normalised distance > 1 under spaces_insert_delete_only) is a recorded known finding; its class is excluded from the upper range assertion only.")
claim("C13", PBT + " + coverage-guided fuzzing (libFuzzer target with the same oracle, thorough tier): range/totality, calibration laws via reference LCS, reference whitespace-operation sets, aggregation laws, defining formulas",
  "Four generated families (word-level corruption triples, whitespace-variant triples, arbitrary Unicode triples, vectors/lists for the simple metrics) x beta x averaging x mode x graphemes.",
  "The metrics' own normalisation is taken from the crate's public clean()/normalize(); float tolerance 1e-9; grapheme-mode calibration only on segmentation-stable texts (KF3).")
claim("C15", PBT + " + coverage-guided fuzzing (libFuzzer target with the same oracle, thorough tier): existential single-edit explanation oracle over edit chains",
  "Generated words x edit-kind subsets x real context tables (or mock providers) x predicates x exclusion sets x seeds x chains; every step must be explained by exactly one enabled edit that reproduces the new word and the new exclusion set; panics (overflow checks on) are failures.",
  "Grapheme mode restricted to closed-pool clusters (KF4); overflow-checks = true as in cargo test.")
claim("C19", PBT + ": replay with full recount (validity predicate, ties explored) + tokenizer consistency",
  "Generated small corpora x vocab sizes x special counts x normalisation x threads; the written table must have ids 0..n-1, every merge must be a positive, maximal-frequency adjacent pair under a from-scratch recount, early stop only on exhaustion.",
  "Line->word map via the crate's clean()/normalize(); ties explored depth-first with a node budget (exhaustion is never an alarm).")
claim("C20", PBT + ": sequential recount, top-k validity predicate, cross-thread equality, save/load round trip, closest-entry predicate",
  "Generated corpora x max_size x max_sequences x threads x modes x queries.",
  "General profile uses the crate's split_words() for the line->token map; the plain profile is fully independent.")
claim("C06", PBT + " + coverage-guided fuzzing (libFuzzer target with the same oracle, thorough tier): partition / limit / termination / determinism / greedy-maximality predicates",
  "Generated item-size vectors x all batching configurations; batches must partition the ids, respect the limit, end within n+2 calls, be a function of the seed, and (without sort/shuffle) be in order and greedy-maximal.",
  "batch_limit 0 / prefetch 0 are clamped to 1 by the constructor; a non-returning next() is caught by the watchdog.")
claim("C10", PBT + " + coverage-guided fuzzing (libFuzzer target with the same oracle, thorough tier): inverse law + code-point-level metamorphic relation",
  "Generated pairs of clean whitespace variants (inverse law), arbitrary strings x arbitrary operation vectors (only whitespace changes, identity, Err on length mismatch), arbitrary pairs (totality).",
  "Grapheme mode: inverse law on closed-pool (segmentation-stable) texts; KF2 recorded outside.")
claim("C11", PBT + " + coverage-guided fuzzing (libFuzzer target with the same oracle, thorough tier): std split_whitespace as reference model, independent boundary scan",
  "Generated Unicode strings (every White_Space code point, CRLF, zero-width non-spaces, hazards); clean/word_boundaries/remove/full compared with independent models; idempotence.",
  "Grapheme mode: segmentation-stable strings (KF1 recorded outside); unstable ones run for totality.")
claim("C14", PBT + " + coverage-guided fuzzing (libFuzzer target with the same oracle, thorough tier): metamorphic relations through the real preprocessing + task functions",
  "Generated clean texts x probabilities x seeds x modes, run through preprocessing(WhitespaceCorruption) and train_task(WhitespaceCorrection): only whitespace changes, output clean, repair/operations recover the original, label count, determinism on fresh instances, p=0 laws, (0,0) rejected.",
  "Grapheme mode on closed-pool texts (KF2); needs the TrainData read accessors of hook H3.")
claim("C16", PBT + " + coverage-guided fuzzing (libFuzzer target with the same oracle, thorough tier): tiling / bounds / slice-equality predicates with an independent prefix-sum table",
  "Generated strings with 1-4 byte characters and wide clusters x max x context (incl. invalid) x char/byte/full x graphemes; Err exactly where the statement allows it, otherwise exact tiling and size limits.",
  "Sizes below 2^20; in byte mode a band of character widths where both outcomes are legitimate is accepted.")
claim("C17", PBT + " + coverage-guided fuzzing (libFuzzer target with the same oracle, thorough tier): exact expected group structure, COO-matrix invariants, padding invariants",
  "Generated batches of texts x byte tokenizer configs x tasks; groups compared with the independent scanner's structure, sparse matrix and padded tensors checked entry by entry.",
  "Needs hooks H1 (tensor views) and H3; f32 tolerance 1e-5.")
claim("C18", PBT + " + coverage-guided fuzzing (libFuzzer target with the same oracle, thorough tier): textbook LCS as reference + validity predicate on the matching",
  "Generated pairs of word sequences with repeats and case variants x ignore_case; matching must be strictly increasing, consist of equal words and have LCS length; edited_words are the complements.",
  "ASCII whitespace separators; case-insensitive equality = to_lowercase equality.")
claim("C05", PBT + " over generated thread schedules: serialising schedule controller (hook points), sequential-map oracle after every step; random choice vectors, PCT, bounded-preemption enumeration, real threads with chaos controller",
  "The harness owns the schedule: workers park at the hook points and run one at a time, the schedule is a generated value (replayable, shrinkable). Oracle: received prefix == sequential map, exactly-once counters, end of stream, all workers exit, no deadlock. Thorough tier additionally enumerates every schedule with <= 2 preemptions for small (T, n).",
  "Granularity = the hook points, sequential consistency; std mpsc/Mutex/SeqCst atomics trusted. Needs hooks H1/H2.")
claim("C08", PBT + ": differential/metamorphic relations between ~10 runs of the real TrainLoader per generated configuration",
  "Generated files x pipeline grammar x (seed, epoch, skip, limit, world, rank, fast-forward, threads, buffer, batching) with a chaos controller on the schedule points: identical batches across thread counts / buffers / fresh loaders, multiset invariance under batching, rank disjointness and union, fast-forward suffix, skip/limit split, one fingerprint per item marker.",
  "Real OS threads are perturbed, not enumerated (C05 covers controlled Pipe schedules); rank/fast-forward relations asserted for files without malformed lines; needs hook H3.")
claim("C09", PBT + " with fault injection: controlled schedules (drop points), policing upstream iterator with real threads, child processes with an injected panic",
  "Generated drop points x thread counts x buffer sizes x upstream lengths (incl. 10^6) x schedules: lookahead and post-drop pulls stay within a constant, every worker reaches its exit; a panicking worker function must terminate the child process.",
  "Bounds 4T+4 / 2*buffer+4 (looser than the code's tight values); thread exit waits rely on the watchdog; child alive after 30 s twice = blocked forever.")
