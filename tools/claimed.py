PBT = "property-based testing (proptest, generated inputs vs. explicit oracle)"
def claim(i, tech, text, note):
    CLAIMED[i] = (tech, text, note, f"DESIGN.md section 5, {i}")

claim("C01", PBT + ": independent special-token scanner + UTF-8 bytes, round trip",
  "Generated Unicode texts (incl. the case's own special-token spellings and look-alikes) x byte/char tokenizer configs x special configs; ids are compared with an independent leftmost scanner and the decode round trip is checked. Exploration: no counterexample in N generated cases.",
  "Special-token sets are prefix-free with tokens >= 2 bytes (otherwise the parse is ambiguous by construction of the regex); cluster boundaries from unicode-segmentation; texts <= ~120 bytes.")
claim("C02", PBT + ": decode(encode) round trip + table-derived byte strings",
  "Generated well-formed merge tables x texts with whitespace structure x max_vocab_size x special configs; losslessness modulo trailing whitespace, id range and UTF-8 validity are checked against the table itself.",
  "Tables <= 48 merges over small alphabets; max_vocab_size semantics as documented in the constructor.")
claim("C03", PBT + ": differential against a naive reference BPE",
  "Generated tables with chains/competing merges x words over the table alphabet; token ids must equal a quadratic rescanning reference (lowest id, leftmost).",
  "Reference BPE and the `\\s+\\S+|^\\S+` scanner are written from the statement; tables <= 32 merges, tokens <= 12 bytes.")
claim("C04", PBT + ": cross-consistency of the vocabulary maps + independent id layout",
  "All tokenizer kinds x special configs x truncation; every id in [0, vocab_size+300) and u32::MAX is queried and get_vocab / id_to_token / token_to_id / de_tokenize must agree with each other and with the expected id layout.",
  "Generated special tokens never collide with regular tokens; char vocabulary asserted as a set.")
claim("C07", PBT + ": exact sequence models (sequential, round-robin), multiset/order/determinism (weighted), step-bounded termination + watchdog",
  "Generated source-length vectors x strategy x seed; drained with a step bound, compared with exact models; a call that never returns is detected by the shard watchdog, confirmed in a fresh process and reported as a violation (the property claims termination).",
  "In-memory sources with exact declared lengths; 20 s without progress inside a microsecond computation counts as non-termination after confirmation.")
claim("C12", PBT + ": differential against a reference DP + script applier + metamorphic laws",
  "Generated pairs over dense alphabets x all flag combinations; distance, normalised distance, prefix distance, distances() and the operations() script are compared with an independent suffix-recursive reference (validated by BFS at start-up).",
  "Trusts unicode-segmentation for cluster boundaries; strings <= 40 characters. KF5 (normalised distance > 1 under spaces_insert_delete_only) is a recorded known finding; its class is excluded from the upper range assertion only.")
claim("C13", PBT + ": range/totality, calibration laws via reference LCS, reference whitespace-operation sets, aggregation laws, defining formulas",
  "Four generated families (word-level corruption triples, whitespace-variant triples, arbitrary Unicode triples, vectors/lists for the simple metrics) x beta x averaging x mode x graphemes.",
  "The metrics' own normalisation is taken from the crate's public clean()/normalize(); float tolerance 1e-9; grapheme-mode calibration only on segmentation-stable texts (KF3).")
claim("C15", PBT + ": existential single-edit explanation oracle over edit chains",
  "Generated words x edit-kind subsets x real context tables (or mock providers) x predicates x exclusion sets x seeds x chains; every step must be explained by exactly one enabled edit that reproduces the new word and the new exclusion set; panics (overflow checks on) are failures.",
  "Grapheme mode restricted to closed-pool clusters (KF4); overflow-checks = true as in cargo test.")
claim("C19", PBT + ": replay with full recount (validity predicate, ties explored) + tokenizer consistency",
  "Generated small corpora x vocab sizes x special counts x normalisation x threads; the written table must have ids 0..n-1, every merge must be a positive, maximal-frequency adjacent pair under a from-scratch recount, early stop only on exhaustion.",
  "Line->word map via the crate's clean()/normalize(); ties explored depth-first with a node budget (exhaustion is never an alarm).")
claim("C20", PBT + ": sequential recount, top-k validity predicate, cross-thread equality, save/load round trip, closest-entry predicate",
  "Generated corpora x max_size x max_sequences x threads x modes x queries.",
  "General profile uses the crate's split_words() for the line->token map; the plain profile is fully independent.")
