CLAIMED["C12"] = (
    "property-based testing (proptest): differential against a reference DP + script applier + metamorphic laws",
    "Generated pairs of strings over dense alphabets (whitespace, multi-byte, multi-code-point clusters) x all 8 flag combinations; distance, normalised distance, prefix distance, distances() and the operations() script are compared with an independent suffix-recursive reference (validated by BFS at start-up). Exploration: no counterexample in N cases, N and the class histogram are in the evidence.",
    "Trusts unicode-segmentation for cluster boundaries and the reference DP (self-tested). Strings <= 40 characters. KF5 (normalised distance > 1 under spaces_insert_delete_only) is a recorded known finding; its class is excluded from the range assertion only.",
    "DESIGN.md section 5, C12",
)
