#!/bin/bash
# tools/intake.sh ID...: for sub-agent deliveries in /tmp/out-<ID> (worktree /tmp/wt-<ID>): run the
# property's quick check against the patch in a scratch copy, then confirm the three claims.
cd /verif
for id in "$@"; do
  r=$(tools/mutant_run.sh /tmp/out-$id/patch.diff $id quick 2>&1)
  echo "== $id check: $(echo "$r" | grep -o "exit\[$id\]=[0-9]*") $(echo "$r" | grep -m1 "failure:" | cut -c1-160)"
done
half=$(( ($# + 1) / 2 )); a=("${@:1:$half}"); b=("${@:$((half+1))}")
(for id in "${a[@]}"; do tools/confirm_seed.sh $id >/dev/null; done) &
(for id in "${b[@]}"; do tools/confirm_seed.sh $id >/dev/null; done) &
wait
for id in "$@"; do
  echo "== $id confirm: $(grep -E '^test result' /tmp/confirm-$id.log | sed -n '1p;3p;4p' | sed 's/test result: //; s/;.*//' | tr '\n' '|')"
done
