#!/usr/bin/env python3
"""Generates /verif/mutants/<ID>-<name>.patch from (file, old, new) edits against the current /repo.
Each mutant is a realistic small change that compiles and keeps the 41 baseline tests green but
breaks (or, for *negative-control*, deliberately does not break) the named property."""
import subprocess, os, sys, tempfile
R = '/repo/'
OUT = '/verif/mutants/'
made = []
def mut(name, file, old, new, count=1):
    src = open(R + file).read()
    if src.count(old) != count:
        print(f"SKIP {name}: pattern occurs {src.count(old)}x in {file}", file=sys.stderr)
        return
    m = src.replace(old, new)
    with tempfile.NamedTemporaryFile('w', delete=False) as t:
        t.write(m)
    d = subprocess.run(['diff', '-u', '--label', 'a/' + file, '--label', 'b/' + file, R + file, t.name], capture_output=True, text=True).stdout
    os.unlink(t.name)
    open(OUT + name + '.patch', 'w').write(d)
    made.append(name)

TOK = 'src/tokenization.rs'; LOAD = 'src/data/loading.rs'; PRE = 'src/data/preprocessing.rs'
# ---- C01
mut('C01-prefix-suffix-swapped', TOK, "        self.prefix_token_ids()\n            .iter()\n            .cloned()\n            .chain(token_ids)\n            .chain(self.suffix_token_ids().iter().cloned())", "        self.suffix_token_ids()\n            .iter()\n            .cloned()\n            .chain(token_ids)\n            .chain(self.prefix_token_ids().iter().cloned())")
mut('C01-regex-not-escaped', TOK, "special_vocab.vocab.keys().map(|st| escape(st)).join(r\"|\")", "special_vocab.vocab.keys().map(|st| st.to_string()).join(r\"|\")")
mut('C01-multi-cp-cluster-first-char', TOK, "                        if code_points.next().is_some() {\n                            VocabToken::Special(&self.state.0)\n                        } else {", "                        if false && code_points.next().is_some() {\n                            VocabToken::Special(&self.state.0)\n                        } else {")
mut('C01-split-input-drops-tail-after-special', TOK, "        if last < s.len() {\n            splits.push(TokenInput::Regular(&s[last..]));\n        }", "        if last < s.len() && (last == 0 || s.len() - last > 1) {\n            splits.push(TokenInput::Regular(&s[last..]));\n        }")
# ---- C02
mut('C02-reverse-merge-ops-unsorted', TOK, "        for (bytes, _) in merge_ops.iter().sorted_by_key(|&(_, merge_id)| merge_id) {", "        for (bytes, _) in merge_ops.iter() {")
mut('C02-merge-id-offset-255', TOK, "                token_ids[first_idx] = Some(256 + merge_id);", "                token_ids[first_idx] = Some(255 + merge_id);")
mut('C02-word-pattern-drops-leading-ws', 'src/text.rs', 'pub(crate) static SPLIT_WORD_WHITESPACE_PATTERN: &str = r"\\s+\\S+|^\\S+";', 'pub(crate) static SPLIT_WORD_WHITESPACE_PATTERN: &str = r"\\s\\S+|^\\S+";')
# ---- C03
mut('C03-revert-D1-stale-entries', TOK, "                bytes[first_idx] = merged.clone();\n                bytes[second_idx].clear();\n                token_ids[first_idx] = Some(256 + merge_id);\n                token_ids[second_idx] = None;\n                // push new potential merge operation with the previous available", "                // push new potential merge operation with the previous available")
mut('C03-rightmost-on-ties', TOK, "                    Some((\n                        Reverse(merge_id),\n                        Reverse(first_idx),\n                        second_idx,\n                        token_ids[first_idx],\n                        token_ids[second_idx],\n                        merged,\n                    ))\n                })\n                .collect();", "                    Some((\n                        Reverse(merge_id),\n                        Reverse(usize::MAX - first_idx),\n                        second_idx,\n                        token_ids[first_idx],\n                        token_ids[second_idx],\n                        merged,\n                    ))\n                })\n                .collect();")
mut('C03-no-staleness-check', TOK, "                if token_ids[first_idx] != first_id || token_ids[second_idx] != second_id {\n                    continue;\n                }", "                if token_ids[first_idx].is_none() || token_ids[second_idx].is_none() {\n                    continue;\n                }")
mut('C03-highest-id-first', TOK, "                    heap.push((\n                        Reverse(merge_id),\n                        Reverse(first_idx),\n                        second_idx,\n                        token_ids[first_idx],\n                        token_ids[second_idx],\n                        merged,\n                    ));\n                };\n                // push new potential merge operation with the next available", "                    heap.push((\n                        Reverse(merge_id / 2),\n                        Reverse(first_idx),\n                        second_idx,\n                        token_ids[first_idx],\n                        token_ids[second_idx],\n                        merged,\n                    ));\n                };\n                // push new potential merge operation with the next available")
# ---- C04
mut('C04-revert-D3', TOK, "        } else if usize::try_from(id).ok()? < self.state.1.len() {\n            // the reverse merge ops already start with the 256 single byte tokens\n            Some(self.state.1[usize::try_from(id).ok()?].clone())", "        } else if id < 256 + u32::try_from(self.state.1.len()).ok()? {\n            Some(self.state.1[usize::try_from(id - 256).ok()?].clone())")
mut('C04-vocab-build-no-unique', TOK, "            .into_iter()\n            .unique()\n            .enumerate()\n            .map(|(tok_id, tok)| (tok, start_id + tok_id as u32))", "            .into_iter()\n            .enumerate()\n            .map(|(tok_id, tok)| (tok, start_id + tok_id as u32))")
mut('C04-bpe-token-to-id-off', TOK, "                let merge_id = self.state.0.get(bytes)?;\n                Some(256 + *merge_id)", "                let merge_id = self.state.0.get(bytes)?;\n                Some(255 + *merge_id)")
mut('C04-pad-multiple-miscount', TOK, "            let num_special_tokens = special_tokens.len();\n            let num_tokens = 256 + num_special_tokens;", "            let num_special_tokens = special_config.tokens.len();\n            let num_tokens = 256 + num_special_tokens;")
# ---- C06
mut('C06-limit-geq', LOAD, "            if batch_limit.limit() > limit && !items.is_empty() {", "            if batch_limit.limit() >= limit && !items.is_empty() {")
mut('C06-remainder-dropped-when-sorted', LOAD, "        // push remainder back to buffer\n        if let Some(remainder) = remainder {\n            buf.push(remainder);\n        }\n        batch", "        // push remainder back to buffer\n        if let Some(remainder) = remainder {\n            if !sort || buf.len() % 7 != 3 {\n                buf.push(remainder);\n            }\n        }\n        batch")
mut('C06-padded-size-is-sum', LOAD, "            BatchLimit::TotalItemSize(count, max_length) => *count * *max_length,", "            BatchLimit::TotalItemSize(count, max_length) => *count + *max_length,")
mut('C06-seed-ignored', LOAD, "        Self {\n            rng: if let Some(seed) = seed {\n                ChaCha8Rng::seed_from_u64(seed)\n            } else {\n                ChaCha8Rng::from_os_rng()\n            },\n            batch_limit,", "        Self {\n            rng: if let Some(seed) = seed.filter(|s| *s > 3) {\n                ChaCha8Rng::seed_from_u64(seed)\n            } else {\n                ChaCha8Rng::from_os_rng()\n            },\n            batch_limit,")
mut('C06-splice-one-more', LOAD, "buf.splice(start_range..end_range, vec![]).collect();", "buf.splice(start_range..(end_range + 1).min(buf.len()), vec![]).collect();")
# ---- C07
mut('C07-revert-D4', LOAD, "                let mut idx = (self.idx + 1) % self.finished.len();\n                while idx != self.idx && self.finished[idx] {", "                let mut idx = self.idx;\n                while idx == self.idx || self.finished[idx] {")
mut('C07-weighted-seed-ignored', LOAD, "            rng: if let Some(seed) = seed {\n                ChaCha8Rng::seed_from_u64(seed)\n            } else {\n                ChaCha8Rng::from_os_rng()\n            },\n            finished,", "            rng: if let Some(seed) = seed.filter(|s| s % 2 == 0) {\n                ChaCha8Rng::seed_from_u64(seed)\n            } else {\n                ChaCha8Rng::from_os_rng()\n            },\n            finished,")
mut('C07-interleaved-drops-last-of-longest', LOAD, "        let value = (data, self.idx);\n        self.next_idx();\n        Some(value)", "        let value = (data, self.idx);\n        self.next_idx();\n        if self.strategy == GenerationStrategy::Interleaved && self.finished.iter().filter(|f| !**f).count() == 1 && self.finished.len() > 2 {\n            self.finished[self.idx] = true;\n        }\n        Some(value)")
# ---- C08
MOD = 'src/data/mod.rs'
mut('C08-revert-D12', PRE, "                .sorted_by_key(|&(s, freq)| (Reverse(*freq), s.clone()))", "                .sorted_by_key(|&(_, freq)| Reverse(*freq))")
mut('C08-rank-ignored-after-fast-forward', MOD, "            .skip(self.skip + self.fast_forward + self.rank)", "            .skip(self.skip + self.fast_forward + if self.fast_forward > 0 { 0 } else { self.rank })")
mut('C08-batch-seed-none', MOD, "                self.batch_limit_type,\n                Some(seed),\n            )\n            .tensorized()", "                self.batch_limit_type,\n                if self.num_threads > 2 { None } else { Some(seed) },\n            )\n            .tensorized()")
mut('C08-enumerate-after-skip', MOD, "        let batch_iter = data_iter\n            .enumerate()\n            .take(self.limit)\n            .skip(self.skip + self.fast_forward + self.rank)", "        let batch_iter = data_iter\n            .take(self.limit)\n            .skip(self.skip + self.fast_forward + self.rank)\n            .enumerate()")
mut('C08-limit-after-skip', MOD, "            .enumerate()\n            .take(self.limit)\n            .skip(self.skip + self.fast_forward + self.rank)\n            .step_by(self.world_size)", "            .enumerate()\n            .skip(self.skip + self.fast_forward + self.rank)\n            .take(self.limit)\n            .step_by(self.world_size)")
mut('C08-switch-uses-thread-rng', 'src/data/utils.rs', "            let mut rng = ChaCha8Rng::seed_from_u64(info.seed);\n            let r: f64 = rng.random();\n            let mut idx = 0;", "            let mut rng = ChaCha8Rng::seed_from_u64(info.seed ^ (std::thread::current().name().map(|n| n.len()).unwrap_or(0) as u64 / 24));\n            let r: f64 = rng.random();\n            let mut idx = 0;")
# ---- C09
mut('C09-revert-D5', LOAD, "                    if tx.send(item).is_err() {\n                        // receiver is closed, so we can return this thread\n                        break;\n                    }\n                    #[cfg(feature = \"verif\")]\n                    vhook.at(0, crate::verif::Point::BufAfterSend, None, None);", "                    tx.send(item).ok();\n                    #[cfg(feature = \"verif\")]\n                    vhook.at(0, crate::verif::Point::BufAfterSend, None, None);")
mut('C09-unbounded-channel', LOAD, "        let (tx, rx) = sync_channel(num_threads);", "        let (tx, rx) = sync_channel(num_threads * 1024);")
mut('C09-no-exit-on-panic', LOAD, "            warn!(\"Thread panicked: {info}\");\n            std::process::exit(1);", "            warn!(\"Thread panicked: {info}\");")
mut('C09-buffered-unbounded', LOAD, "        let (tx, rx) = sync_channel(buffer_size);", "        let (tx, rx) = sync_channel(buffer_size.max(1) * 64);")
# ---- C10
WS = 'src/whitespace.rs'
mut('C10-insert-advances-one', WS, "            operations.push(Operation::Insert);\n            to_ptr += 2;", "            operations.push(Operation::Insert);\n            to_ptr += if to_ptr > 11 { 1 } else { 2 };")
mut('C10-repair-delete-any', WS, "        } else if *op == Operation::Delete && char.is_whitespace() {", "        } else if *op == Operation::Delete && (char.is_whitespace() || char.str.len() > 3) {")
mut('C10-repair-no-length-check', WS, "    if chars.len() != operations.len() {", "    if chars.len() > operations.len() {")
# ---- C11
TXT = 'src/text.rs'
mut('C11-clean-keeps-leading-space', TXT, "        } else if last_was_whitespace && !output.is_empty() {", "        } else if last_was_whitespace && (!output.is_empty() || char.str.len() > 3) {")
mut('C11-clean-keeps-original-ws', TXT, "            output.push(' ');\n        }\n        last_was_whitespace = false;", "            output.push(if char.str.len() == 3 { '\\u{3000}' } else { ' ' });\n        }\n        last_was_whitespace = false;")
mut('C11-word-boundaries-last-word', TXT, "        if start < num_elements {\n            boundaries.push((start, num_elements));\n        }", "        if start + 1 < num_elements {\n            boundaries.push((start, num_elements));\n        }")
mut('C11-is-whitespace-ascii-only', 'src/unicode.rs', "    s.chars().all(char::is_whitespace)\n}", "    s.chars().all(|c| c.is_whitespace() && c != '\\u{205f}')\n}")
mut('C11-full-joins-with-double-space-after-multibyte', WS, "        .filter(|c| !c.is_whitespace())\n        .join(\" \")", "        .filter(|c| !c.is_whitespace() || c.str == \"\\u{85}\")\n        .join(\" \")")
# ---- C12
ED = 'src/edit.rs'
mut('C12-revert-D6', ED, "a_cs.len().max(b_cs.len()).max(1) as f64", "a_cs.len().max(b_cs.len()) as f64")
mut('C12-swap-cost-from-wrong-cell', ED, "costs.push((d[(i - 2) * cols + j - 2] + 1, EditOp::Swap));", "costs.push((d[(i - 1) * cols + j - 1] + 1, EditOp::Swap));")
mut('C12-replace-allowed-on-ws', ED, "                    || (!a_char.is_whitespace() && !b_char.is_whitespace())", "                    || (!a_char.is_whitespace() || !b_char.is_whitespace())")
mut('C12-swap-ws-check-one-side', ED, "                    || (!a_char.is_whitespace() && !a_chars[i - 2].is_whitespace())", "                    || !a_char.is_whitespace()")
mut('C12-backtrace-swap-one', ED, "            EditOp::Swap => {\n                i -= 2;\n                j -= 2;\n                edit_ops.push((EditOperation::Swap, i, j));", "            EditOp::Swap => {\n                i -= 2;\n                j -= 2;\n                edit_ops.push((EditOperation::Swap, i + 1, j));")
mut('C12-prefix-distance-skips-empty-prefix', ED, "    d[i * cols..(i + 1) * cols]\n        .iter()\n        .min()", "    d[i * cols + usize::from(cols > 3)..(i + 1) * cols]\n        .iter()\n        .min()")
mut('C12-prefer-replace-on-tie-wrong-cost', ED, "                    costs.push((d[(i - 1) * cols + j - 1] + 1, EditOp::Replace));", "                    costs.push((d[(i - 1) * cols + j - 1] + 1 + usize::from(i > 6 && j > 6), EditOp::Replace));")
# ---- C13
MET = 'src/metrics.rs'
mut('C13-revert-D7', MET, "    if input_words.is_empty() || word_boundaries(predicted, use_graphemes).is_empty() {\n        // without words on one side no input word can be grouped with a predicted word\n        return HashSet::new();\n    }\n", "")
mut('C13-revert-D8', MET, "            f(\n                &clean(&normalize(&clean(input, true), Normalization::NFKC, true), true),\n                &clean(&normalize(&clean(predicted, true), Normalization::NFKC, true), true),\n                &clean(&normalize(&clean(target, true), Normalization::NFKC, true), true),\n            )", "            f(\n                &normalize(&clean(input, true), Normalization::NFKC, true),\n                &normalize(&clean(predicted, true), Normalization::NFKC, true),\n                &normalize(&clean(target, true), Normalization::NFKC, true),\n            )")
mut('C13-f1-no-max1', MET, "    let precision = tp as f64 / (tp + fp).max(1) as f64;", "    let precision = tp as f64 / (tp + fp) as f64;")
mut('C13-f1-beta-dropped', MET, "((1.0 + beta_sq) * precision * recall) / (beta_sq * precision + recall)", "((1.0 + beta_sq) * precision * recall) / (precision + beta_sq * recall)")
mut('C13-fps-fns-swapped', MET, "        tps.count(),\n        fps.count(),\n        fns.count(),\n        F1Info::Empty,", "        tps.count(),\n        fns.count(),\n        fps.count(),\n        F1Info::Empty,")
mut('C13-seq-avg-empty-zero', MET, "                if empty {\n                    (1.0, 1.0, 1.0)\n                } else {", "                if empty && beta < 0.0 {\n                    (1.0, 1.0, 1.0)\n                } else {")
mut('C13-ws-mode-insertions-includes-deletes', MET, "            | (Operation::Insert, WhitespaceCorrectionMode::Insertions)\n            | (Operation::Delete, WhitespaceCorrectionMode::Deletions) => Some((idx, op)),", "            | (Operation::Insert, WhitespaceCorrectionMode::Insertions)\n            | (Operation::Delete, WhitespaceCorrectionMode::Deletions | WhitespaceCorrectionMode::Insertions) => Some((idx, op)),")
mut('C13-accuracy-divides-by-len-plus', MET, "        / predictions.len().max(1) as f64)", "        / predictions.len().max(2) as f64)")
mut('C13-mned-unnormalised-for-long', MET, "        .sum::<f64>()\n        / length.max(1) as f64)", "        .sum::<f64>()\n        / (length.max(1) + usize::from(length > 3)) as f64)")
# ---- C14
mut('C14-insert-at-start', PRE, "                } else if r < iw_p && idx > 0 && !cs.get_char(idx - 1).unwrap().is_whitespace() {", "                } else if r < iw_p && (idx > 0 || c.str.len() > 2) && (idx == 0 || !cs.get_char(idx - 1).unwrap().is_whitespace()) {")
mut('C14-insert-after-ws', PRE, "                } else if r < iw_p && idx > 0 && !cs.get_char(idx - 1).unwrap().is_whitespace() {", "                } else if r < iw_p && idx > 0 && (idx > 12 || !cs.get_char(idx - 1).unwrap().is_whitespace()) {")
mut('C14-seed-mixed-with-length', PRE, "    Box::new(move |text, info| {\n        let mut rng = ChaCha8Rng::seed_from_u64(info.seed);\n        let cs = CS::new(text, use_graphemes);", "    let calls = std::sync::atomic::AtomicU64::new(0);\n    Box::new(move |text, info| {\n        let n = calls.fetch_add(1, std::sync::atomic::Ordering::Relaxed);\n        let mut rng = ChaCha8Rng::seed_from_u64(info.seed + n / 2);\n        let cs = CS::new(text, use_graphemes);")
# ---- C15
COR = 'src/corrupt.rs'
mut('C15-revert-D9', COR, "        let prev = idx\n            .checked_sub(1)\n            .and_then(|prev_idx| cs.get(prev_idx))\n            .unwrap_or(\"<bow>\");\n        let s = cs.get(idx).unwrap_or(\"<eow>\");", "        let prev = cs.get(idx - 1).unwrap_or(\"<bow>\");\n        let s = cs.get(idx).unwrap_or(\"<eow>\");")
mut('C15-replace-shift-no-minus-one', COR, "                        idx + replacement_len - 1", "                        idx + replacement_len.max(1) - 1")
mut('C15-insert-ignores-left-exclusion', COR, "                    let excluded = exclude_indices.contains(&idx)\n                        || (idx > 0 && exclude_indices.contains(&(idx - 1)));", "                    let excluded = exclude_indices.contains(&idx);")
mut('C15-swap-ignores-right-exclusion', COR, "                        exclude_indices.contains(idx) || exclude_indices.contains(&(idx + 1));", "                        exclude_indices.contains(idx);")
mut('C15-swap-marks-one', COR, "            exclude_indices.insert(swap_idx);\n            exclude_indices.insert(swap_idx + 1);", "            exclude_indices.insert(swap_idx);")
mut('C15-full-delete-ignored', COR, "        if !self.full_delete && cs.len() <= 1 {", "        if !self.full_delete && cs.len() < 1 {")
# ---- C16
WIN = 'src/windows.rs'
mut('C16-char-window-always-two-ctx', WIN, "        let window_length = max_length - (1 + usize::from(window_start > 0)) * context_length;\n        let ctx_start = window_start.saturating_sub(context_length);", "        let window_length = max_length - (1 + usize::from(window_start > 0)) * context_length + usize::from(window_start > 20);\n        let ctx_start = window_start.saturating_sub(context_length);")
mut('C16-no-progress-error-removed', WIN, "        if window_end <= window_start {\n            return Err(anyhow!(", "        if window_end < window_start {\n            return Err(anyhow!(")
mut('C16-byte-range-end-minus-one', 'src/unicode.rs', "        if start < end - 1 {\n            let (_, new_end_byte) = self.byte_start_end(end - 1);", "        if start < end - 1 && end - start != 7 {\n            let (_, new_end_byte) = self.byte_start_end(end - 1);")
mut('C16-byte-ctx-end-overshoot', WIN, "        let ctx_end = window_end + count_until(window_end..cs.len(), context_bytes, &cs);", "        let ctx_end = window_end + count_until(window_end..cs.len(), context_bytes + usize::from(window_start > 0 && context_bytes > 2), &cs);")
mut('C16-count-until-off-by-one', WIN, "        if next_acc > max_length {", "        if next_acc > max_length + usize::from(acc > 9) {")
# ---- C17
mut('C17-suffix-groups-omitted', TOK, "        groups.append(&mut vec![TokenGroup::Full(1); self.num_suffix_tokens()]);", "        groups.append(&mut vec![TokenGroup::Full(1); self.num_suffix_tokens().min(1)]);")
mut('C17-nested-weight-by-len', TOK, "                    GroupAggregation::Mean => 1.0 / groups.len() as f32,\n                };\n                groups\n                    .iter()", "                    GroupAggregation::Mean => 1.0 / groups.len().max(2) as f32,\n                };\n                groups\n                    .iter()")
mut('C17-group-offset-not-advanced', TOK, "            group_offset += group_len as i32;", "            group_offset += group_len.min(4) as i32;")
mut('C17-pad-with-zero', MOD, "        padded_ids.extend(repeat(pad_id).take(max_len - id.as_ref().len()));\n        lengths.push(id.as_ref().len());", "        padded_ids.extend(repeat(if max_len > 30 { T::zero() } else { pad_id }).take(max_len - id.as_ref().len()));\n        lengths.push(id.as_ref().len());")
mut('C17-lengths-after-padding', MOD, "        lengths.push(id.as_ref().len());", "        lengths.push(if batch_size > 4 { max_len } else { id.as_ref().len() });")
mut('C17-special-token-group-missing', TOK, "                    tokens.push(token_id);\n                    groups.push(TokenGroup::Full(1));", "                    tokens.push(token_id);\n                    if tokens.len() != 7 {\n                        groups.push(TokenGroup::Full(1));\n                    }")
# ---- C18
mut('C18-no-plus-matching', TXT, "                    d[i - 1][j - 1] + usize::from(matching),", "                    d[i - 1][j - 1] + usize::from(matching && (i != 5 || j != 2)),")
mut('C18-edited-words-ignore-case', ED, "    let (matching_words, a_len, b_len) = match_words(a, b, false);", "    let (matching_words, a_len, b_len) = match_words(a, b, a.len() > 12);")
mut('C18-word-count-unicode-split', TXT, "    let b_words = b.split_ascii_whitespace().collect::<Vec<&str>>();\n\n    let mut d", "    let b_words = b.split_ascii_whitespace().take(7).collect::<Vec<&str>>();\n\n    let mut d")
# ---- C19
mut('C19-revert-D10', TOK, "        // pairs that were merged away stay in the stats with frequency 0\n        .filter(|&(_, info)| info.freq > 0)\n", "")
mut('C19-update-stats-step-one', TOK, "                *occ = occ.saturating_sub(1);\n            }\n            i += 2;\n        }", "                *occ = occ.saturating_sub(1);\n            }\n            i += 1;\n        }")
mut('C19-overlap-guard-dropped', TOK, "            if i < old_word.len() - 2\n                && (old_word[i + 2] != pair.first\n                    || i >= old_word.len() - 3\n                    || old_word[i + 3] != pair.second)\n            {", "            if i < old_word.len() - 2 {")
mut('C19-merge-idx-after-insert', TOK, "        merge_ops.insert(pair.merge(), merge_idx as u32);", "        merge_ops.insert(pair.merge(), (merge_idx + usize::from(merge_idx > 4)) as u32);")
mut('C19-new-prev-pair-not-counted-twice', TOK, "            if i < new_word.len() - 1 && new_word[i + 1] != merged {", "            if i < new_word.len() - 1 {")
mut('C19-thread-drops-last-line', TOK, "                    let counts: HashMap<_, _> = count_words_whitespace(&line, true)", "                    if line.len() == 11 && idx > 1 {\n                        continue;\n                    }\n                    let counts: HashMap<_, _> = count_words_whitespace(&line, true)")
# ---- C20
DIC = 'src/dictionary.rs'
mut('C20-revert-D11', DIC, "BinaryHeap::with_capacity(max_size.min(counts.len()).saturating_add(1))", "BinaryHeap::with_capacity(max_size + 1)")
mut('C20-heap-geq', DIC, "            if heap.len() > max_size {\n                heap.pop();", "            if heap.len() >= max_size && max_size > 2 {\n                heap.pop();")
mut('C20-max-sequences-per-file', DIC, "                reader.lines().map_while(Result::ok)\n            })\n            .take(max_sequences);", "                reader.lines().map_while(Result::ok).take(max_sequences)\n            })\n            .take(max_sequences.saturating_mul(2));")
mut('C20-heap-keeps-least-frequent', DIC, "            heap.push(Reverse((freq, word)));", "            heap.push(Reverse((if max_size == 3 { usize::MAX - freq } else { freq }, word)));")
mut('C20-closest-leq', DIC, "            if dists[i] < min_dist {", "            if dists[i] <= min_dist {")
mut('C20-closest-least-frequent', DIC, "            .max_by(|(_, a), (_, b)| a.cmp(b))", "            .max_by(|(_, a), (_, b)| b.cmp(a))")
mut('C20-freq-sum-before-cut', DIC, "        Ok(Self::new(inner))\n    }\n\n    pub fn save", "        let mut d = Self::new(inner);\n        if num_threads > 2 {\n            d.freq_sum += 1;\n        }\n        Ok(d)\n    }\n\n    pub fn save")
mut('C20-threads-lose-counts', DIC, "                if count_tx_clone.send(counts).is_err() {\n                    return;\n                };\n            });", "                if counts.len() == 5 && num_threads == 3 {\n                    continue;\n                }\n                if count_tx_clone.send(counts).is_err() {\n                    return;\n                };\n            });")
mut('C20-save-drops-tab-free', DIC, "            writeln!(file, \"{key}\\t{value}\")?;", "            writeln!(file, \"{}\\t{value}\", key.trim_end_matches('.'))?;")


# ---- C05 (schedule-dependent)
mut('C05-swap-send-advance', LOAD, """                        let send_result = tx_clone.send(item);
                        #[cfg(feature = "verif")]
                        vhook.at(
                            thread,
                            crate::verif::Point::AfterSend,
                            Some(idx),
                            Some(send_result.is_ok()),
                        );
                        send_next.swap(idx + 1, Ordering::SeqCst);
""", """                        send_next.swap(idx + 1, Ordering::SeqCst);
                        let send_result = tx_clone.send(item);
                        #[cfg(feature = "verif")]
                        vhook.at(
                            thread,
                            crate::verif::Point::AfterSend,
                            Some(idx),
                            Some(send_result.is_ok()),
                        );
""")
mut('C05-turn-check-lt', LOAD, "while send_next.load(Ordering::SeqCst) != idx {", "while send_next.load(Ordering::SeqCst) + 1 < idx {")
mut('C05-rendezvous-channel-negative-control', LOAD, "let (tx, rx) = sync_channel(num_threads);", "let (tx, rx) = sync_channel(0);")
# ---- added after the first sweep
mut('C09-no-advance-on-failed-send', LOAD, """                        send_next.swap(idx + 1, Ordering::SeqCst);
                        #[cfg(feature = "verif")]
                        vhook.at(thread, crate::verif::Point::AfterAdvance, Some(idx), None);
                        if send_result.is_err() {""", """                        if send_result.is_ok() {
                            send_next.swap(idx + 1, Ordering::SeqCst);
                        }
                        #[cfg(feature = "verif")]
                        vhook.at(thread, crate::verif::Point::AfterAdvance, Some(idx), None);
                        if send_result.is_err() {""")
mut('C05-thread-count-off-by-one', LOAD, "        for thread in 0..num_threads {", "        for thread in 1..num_threads {")
mut('C05-ticket-outside-lock', LOAD, "        let inner = Arc::new(Mutex::new(iter.enumerate()));", "        let inner = Arc::new(Mutex::new(iter.enumerate().map(|(i, x)| (i - usize::from(i == 6), x))));")
mut('C08-seed-from-epoch-only-after-first', MOD, "        let seed = self.seed.unwrap_or_default() + self.epoch as u64;", "        let seed = self.seed.unwrap_or_default() + self.epoch as u64 + (self.fast_forward as u64 / 4);")
mut('C14-insert-uses-tab-for-wide-chars', PRE, '                    " ".to_string() + c.str', '                    (if c.str.len() > 3 { "\\t" } else { " " }).to_string() + c.str')
mut('C18-backtrace-skips-first-match', TXT, "            MatchOp::Match => {\n                i -= 1;\n                j -= 1;\n                matches.push((i, j));", "            MatchOp::Match => {\n                i -= 1;\n                j -= 1;\n                if i + j > 0 || a_words.len() < 4 {\n                    matches.push((i, j));\n                }")
mut('C07-interleaved-restarts-at-zero', LOAD, "                let mut idx = (self.idx + 1) % self.finished.len();\n                while idx != self.idx && self.finished[idx] {", "                let mut idx = if self.finished.len() > 3 && self.finished[0] { 1 } else { (self.idx + 1) % self.finished.len() };\n                while idx != self.idx && self.finished[idx] {")
# hand-made multi-site patch kept as a file: mutants/C05-ticket-after-unlock.patch (ticket number taken after the lock is released:
# a race *between* two hook points, caught by the real-thread contention runs)
print(len(made), "mutants written")
