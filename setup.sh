#!/bin/bash
# MANIFEST.setup_cmd: cold build of the harness against /repo's working tree, offline.
set -eu
cd "$(dirname "$0")"
export CARGO_NET_OFFLINE=true
export CARGO_TARGET_DIR="${TUV_TARGET_DIR:-$(pwd)/target}"
mkdir -p "$CARGO_TARGET_DIR" evidence work
( cd harness && cargo build --release --offline )
"$CARGO_TARGET_DIR/release/tuv" list
